// Bounded stand-in (DESIGN §3.9): exhaustive native execution of the real
// conversion functions over a complete finite domain. Labelled "bounded" in
// the evidence, never counted as a discharged proof obligation.
package main

import (
	"encoding/json"
	"fmt"
	"os"
	"runtime"
	"sync"

	"pipelined.dev/signal"
)

type result struct {
	Check      string   `json:"check"`
	Domain     string   `json:"domain"`
	Evaluated  uint64   `json:"evaluations"`
	Exhaustive bool     `json:"exhaustive"`
	Failures   uint64   `json:"failures"`
	Examples   []string `json:"examples"`
}

const chunk = 1 << 16

// roundTripSigned32: every positive int32 code through float64 and back.
func roundTripSigned32() result {
	r := result{Check: "SignedAsFloat[int32,float64]/bounded:roundtrip-positive", Domain: "all int32 codes 1..2^31-1 through float64 and FloatAsSigned", Exhaustive: true}
	var mu sync.Mutex
	var wg sync.WaitGroup
	n := runtime.NumCPU()
	total := uint64(1) << 31
	per := (total + uint64(n) - 1) / uint64(n)
	for w := 0; w < n; w++ {
		lo := uint64(w) * per
		hi := lo + per
		if hi > total {
			hi = total
		}
		wg.Add(1)
		go func(lo, hi uint64) {
			defer wg.Done()
			src := signal.Alloc[int32](signal.Allocator{Channels: 1, Length: chunk, Capacity: chunk})
			mid := signal.Alloc[float64](signal.Allocator{Channels: 1, Length: chunk, Capacity: chunk})
			dst := signal.Alloc[int32](signal.Allocator{Channels: 1, Length: chunk, Capacity: chunk})
			var fails uint64
			var ex []string
			var count uint64
			for base := lo; base < hi; base += chunk {
				m := uint64(chunk)
				if base+m > hi {
					m = hi - base
				}
				for i := uint64(0); i < m; i++ {
					src.SetSample(int(i), int32(base+i))
				}
				signal.SignedAsFloat(src, mid)
				signal.FloatAsSigned(mid, dst)
				for i := uint64(0); i < m; i++ {
					v := int32(base + i)
					if v <= 0 {
						continue
					}
					count++
					if got := dst.Sample(int(i)); got != v {
						fails++
						if len(ex) < 5 {
							ex = append(ex, fmt.Sprintf("x=%d float=%v back=%d", v, mid.Sample(int(i)), got))
						}
					}
				}
			}
			mu.Lock()
			r.Failures += fails
			r.Evaluated += count
			if len(r.Examples) < 5 {
				r.Examples = append(r.Examples, ex...)
			}
			mu.Unlock()
		}(lo, hi)
	}
	wg.Wait()
	return r
}

// roundTripUnsigned32: every uint32 code with positive amplitude.
func roundTripUnsigned32() result {
	r := result{Check: "UnsignedAsFloat[uint32,float64]/bounded:roundtrip-positive", Domain: "all uint32 codes 2^31+1..2^32-1 through float64 and FloatAsUnsigned", Exhaustive: true}
	var mu sync.Mutex
	var wg sync.WaitGroup
	n := runtime.NumCPU()
	start := uint64(1)<<31 + 1
	total := uint64(1)<<32 - start
	per := (total + uint64(n) - 1) / uint64(n)
	for w := 0; w < n; w++ {
		lo := start + uint64(w)*per
		hi := lo + per
		if hi > uint64(1)<<32 {
			hi = uint64(1) << 32
		}
		wg.Add(1)
		go func(lo, hi uint64) {
			defer wg.Done()
			src := signal.Alloc[uint32](signal.Allocator{Channels: 1, Length: chunk, Capacity: chunk})
			mid := signal.Alloc[float64](signal.Allocator{Channels: 1, Length: chunk, Capacity: chunk})
			dst := signal.Alloc[uint32](signal.Allocator{Channels: 1, Length: chunk, Capacity: chunk})
			var fails, count uint64
			var ex []string
			for base := lo; base < hi; base += chunk {
				m := uint64(chunk)
				if base+m > hi {
					m = hi - base
				}
				for i := uint64(0); i < m; i++ {
					src.SetSample(int(i), uint32(base+i))
				}
				signal.UnsignedAsFloat(src, mid)
				signal.FloatAsUnsigned(mid, dst)
				for i := uint64(0); i < m; i++ {
					v := uint32(base + i)
					count++
					if got := dst.Sample(int(i)); got != v {
						fails++
						if len(ex) < 5 {
							ex = append(ex, fmt.Sprintf("x=%d float=%v back=%d", v, mid.Sample(int(i)), got))
						}
					}
				}
			}
			mu.Lock()
			r.Failures += fails
			r.Evaluated += count
			if len(r.Examples) < 5 {
				r.Examples = append(r.Examples, ex...)
			}
			mu.Unlock()
		}(lo, hi)
	}
	wg.Wait()
	return r
}

// generic exhaustive round trip over a code range [lo, hi]; tol = allowed |back - x|
func roundTrip[S int8 | int16 | int32 | uint8 | uint16 | uint32, F float32 | float64](check, domain string, lo, hi int64, tol int64,
	fwd func(*signal.Buffer[S], *signal.Buffer[F]) int, back func(*signal.Buffer[F], *signal.Buffer[S]) int) result {
	r := result{Check: check, Domain: domain, Exhaustive: true}
	n := int(hi - lo + 1)
	src := signal.Alloc[S](signal.Allocator{Channels: 1, Length: n, Capacity: n})
	mid := signal.Alloc[F](signal.Allocator{Channels: 1, Length: n, Capacity: n})
	dst := signal.Alloc[S](signal.Allocator{Channels: 1, Length: n, Capacity: n})
	for i := 0; i < n; i++ {
		src.SetSample(i, S(lo+int64(i)))
	}
	fwd(src, mid)
	back(mid, dst)
	for i := 0; i < n; i++ {
		v := lo + int64(i)
		got := int64(dst.Sample(i))
		r.Evaluated++
		d := got - v
		if d < -tol || d > tol {
			r.Failures++
			if len(r.Examples) < 5 {
				r.Examples = append(r.Examples, fmt.Sprintf("x=%d float=%v back=%d", v, mid.Sample(i), got))
			}
		}
	}
	return r
}

func main() {
	var out []result
	for _, a := range os.Args[1:] {
		switch a {
		case "signed32":
			out = append(out, roundTripSigned32())
		case "unsigned32":
			out = append(out, roundTripUnsigned32())
		case "signed16":
			out = append(out, roundTrip[int16, float64]("SignedAsFloat[int16,float64]/bounded:roundtrip", "all int16 codes through float64 and FloatAsSigned", -32768, 32767, 0,
				signal.SignedAsFloat[int16, float64], signal.FloatAsSigned[float64, int16]))
			out = append(out, roundTrip[int16, float32]("SignedAsFloat[int16,float32]/bounded:roundtrip-within-one", "all int16 codes through float32 and FloatAsSigned", -32768, 32767, 1,
				signal.SignedAsFloat[int16, float32], signal.FloatAsSigned[float32, int16]))
		case "unsigned16":
			out = append(out, roundTrip[uint16, float64]("UnsignedAsFloat[uint16,float64]/bounded:roundtrip-positive", "all uint16 codes above 2^15 through float64 and FloatAsUnsigned", 32769, 65535, 0,
				signal.UnsignedAsFloat[uint16, float64], signal.FloatAsUnsigned[float64, uint16]))
			out = append(out, roundTrip[uint16, float64]("UnsignedAsFloat[uint16,float64]/bounded:roundtrip-nonpositive", "all uint16 codes 0..2^15 through float64 and FloatAsUnsigned", 0, 32768, 0,
				signal.UnsignedAsFloat[uint16, float64], signal.FloatAsUnsigned[float64, uint16]))
			out = append(out, roundTrip[uint16, float32]("UnsignedAsFloat[uint16,float32]/bounded:roundtrip-within-one", "all uint16 codes through float32 and FloatAsUnsigned", 0, 65535, 1,
				signal.UnsignedAsFloat[uint16, float32], signal.FloatAsUnsigned[float32, uint16]))
		}
	}
	json.NewEncoder(os.Stdout).Encode(out)
}
