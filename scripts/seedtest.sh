#!/bin/bash
# usage: seedtest.sh Cxx [src-dir]   (src-dir defaults to /tmp/seed-Cxx/_seed; afterwards /verif/seeded/Cxx)
# 1. confirms the seeded change in a scratch worktree (suite passes with it, demo fails with it, demo passes without it)
# 2. applies it to /repo, runs every registered quick check, undoes it
set -u
id="$1"; src="${2:-/tmp/seed-$id/_seed}"
export GOFLAGS=-mod=mod GOPROXY=off GOSUMDB=off GOTOOLCHAIN=local
dst=/verif/seeded/$id
mkdir -p "$dst"
if [ "$src" != "$dst" ]; then cp "$src"/patch.diff "$src"/meta.json "$dst"/ 2>/dev/null; cp "$src"/*_test.go "$dst"/ 2>/dev/null; fi
[ -s "$dst/patch.diff" ] || { echo "no patch for $id"; exit 2; }
demo=$(ls "$dst"/*_test.go | head -1)
race=""; grep -q -- "-race" "$dst/meta.json" 2>/dev/null && race="-race"
w=/tmp/confirm-$id
git -C /repo worktree remove --force "$w" 2>/dev/null
git -C /repo worktree add -q --detach "$w" HEAD || exit 2
res="$dst/confirmation.txt"; : > "$res"
( cd "$w" && git apply "$dst/patch.diff" ) || { echo "PATCH DOES NOT APPLY" | tee -a "$res"; git -C /repo worktree remove --force "$w"; exit 2; }
( cd "$w" && go build ./... ) && echo "builds_with_change: yes" >> "$res" || echo "builds_with_change: NO" >> "$res"
( cd "$w" && go test -vet=off -count=1 ./... >/dev/null 2>&1 ) && echo "suite_passes_with_change: yes" >> "$res" || echo "suite_passes_with_change: NO" >> "$res"
cp "$demo" "$w/"
( cd "$w" && go test $race -vet=off -count=1 -run 'Seed|Demo|seed|demo' . >/dev/null 2>&1 ) && echo "demo_fails_with_change: NO (demo passed)" >> "$res" || echo "demo_fails_with_change: yes" >> "$res"
( cd "$w" && git apply -R "$dst/patch.diff" && go test $race -vet=off -count=1 -run 'Seed|Demo|seed|demo' . >/dev/null 2>&1 ) && echo "demo_passes_without_change: yes" >> "$res" || echo "demo_passes_without_change: NO" >> "$res"
git -C /repo worktree remove --force "$w"
cat "$res"
# run the checks against the change (scratch copy of /repo's working tree outside /repo and /verif,
# so that other work on /repo is not disturbed; SEED_INPLACE=1 applies it to /repo itself instead)
out="$dst/checks.txt"; : > "$out"
if [ "${SEED_INPLACE:-}" = "1" ]; then
  git -C /repo apply "$dst/patch.diff" || { echo "cannot apply to /repo"; exit 2; }
  target=/repo
else
  target=$(mktemp -d /var/tmp/seedrepo.XXXXXX)
  cp -r /repo/. "$target"/ && rm -rf "$target/.git"
  ( cd "$target" && patch -p1 -s < "$dst/patch.diff" ) || { echo "cannot apply to scratch copy"; rm -rf "$target"; exit 2; }
fi
for p in $(python3 -c "import json;print(' '.join(c['property_id'] for c in json.load(open('/verif/MANIFEST.json'))['checks']))"); do
  if [ "${SEED_ONLY:-}" != "" ] && [ "$p" != "${id:0:3}" ]; then continue; fi
  r=$(${SIGVERIF:-/verif/bin/sigverif} -repo "$target" check $p 2>&1); rc=$?
  echo "== $p exit=$rc" >> "$out"
  echo "$r" | grep -E "^VIOLATION|^KNOWN|GENERATOR" | cut -c1-300 >> "$out"
done
if [ "${SEED_INPLACE:-}" = "1" ]; then
  git -C /repo checkout -- .
  git -C /repo status --short | grep -v '^??' && echo "WARNING: /repo not clean"
else
  rm -rf "$target"
fi
grep -E "^== .* exit=[12]" "$out" | tr '\n' ' '; echo
