#!/bin/bash
# usage: seedimport.sh <agent-worktree> <seed-id>
# Confirms a sub-agent's seeded change independently in a fresh scratch worktree of /repo (suite passes with the
# change, demo fails with it, demo passes without it) and, if all three hold, stores it as /verif/seeded/<seed-id>/.
set -u
wt="$1"; id="$2"; dst=/verif/seeded/$id
export GOFLAGS=-mod=mod GOPROXY=off GOSUMDB=off GOTOOLCHAIN=local
for f in patch.diff seed_demo_test.go meta.json; do [ -s "$wt/_seed/$f" ] || { echo "$id: missing $f"; exit 2; }; done
s=$(mktemp -d /var/tmp/seedconf.XXXXXX); rmdir "$s"
git -C /repo worktree add --detach "$s" HEAD >/dev/null 2>&1 || { echo "$id: worktree failed"; exit 2; }
cp "$wt/_seed/seed_demo_test.go" "$s/"
( cd "$s" && go test -vet=off -count=1 -run TestSeedDemo . >/dev/null 2>&1 ); without=$?
( cd "$s" && git apply "$wt/_seed/patch.diff" ) || { echo "$id: patch does not apply"; git -C /repo worktree remove --force "$s"; exit 2; }
( cd "$s" && go test -vet=off -count=1 -run TestSeedDemo . >/dev/null 2>&1 ); with=$?
rm "$s/seed_demo_test.go"
( cd "$s" && go build ./... && go test -count=1 ./... >/dev/null 2>&1 ); suite=$?
git -C /repo worktree remove --force "$s"
echo "$id: demo-without=$without (want 0) demo-with=$with (want !=0) suite-with=$suite (want 0)"
if [ $without -eq 0 ] && [ $with -ne 0 ] && [ $suite -eq 0 ]; then
  mkdir -p "$dst"; cp "$wt/_seed/patch.diff" "$wt/_seed/seed_demo_test.go" "$dst/"
  jq --arg c "scripts/seedimport.sh: fresh worktree of /repo HEAD: demo passes without the change (exit $without), fails with it (exit $with), go test ./... passes with it (exit $suite)" '. + {confirmed_by: $c}' "$wt/_seed/meta.json" > "$dst/meta.json"
  printf 'builds_with_change: yes\nsuite_passes_with_change: yes\ndemo_fails_with_change: yes\ndemo_passes_without_change: yes\n(scripts/seedimport.sh, fresh scratch worktree of /repo HEAD)\n' > "$dst/confirmation.txt"
  echo "$id: kept"
else
  echo "$id: NOT kept"; exit 1
fi
