#!/bin/bash
# usage: refactortest.sh <name> [src-dir]
# A behaviour-preserving change (refactor.diff + refactor.md written by a sub-agent in its own scratch worktree) is
# kept under /verif/refactors/<name>/; the suite is confirmed to pass with it, then every registered quick check is
# run against a scratch copy of /repo with the change applied. Any VIOLATION here is a FALSE ALARM of the machinery.
set -u
id="$1"; src="${2:-/var/tmp/$id}"
export GOFLAGS=-mod=mod GOPROXY=off GOSUMDB=off GOTOOLCHAIN=local
dst=/verif/refactors/$id
mkdir -p "$dst"
if [ "$src" != "$dst" ]; then cp "$src"/refactor.diff "$dst"/patch.diff; cp "$src"/refactor.md "$dst"/notes.md 2>/dev/null; fi
[ -s "$dst/patch.diff" ] || { echo "no patch for $id"; exit 2; }
target=$(mktemp -d /var/tmp/rfrepo.XXXXXX)
cp -r /repo/. "$target"/ && rm -rf "$target/.git" "$target"/refactor.*
( cd "$target" && patch -p1 -s < "$dst/patch.diff" ) || { echo "cannot apply to scratch copy"; rm -rf "$target"; exit 2; }
out="$dst/checks.txt"; : > "$out"
( cd "$target" && go build ./... && go vet ./... && go test -count=1 ./... >/dev/null 2>&1 ) && echo "suite_passes_with_change: yes" >> "$out" || echo "suite_passes_with_change: NO" >> "$out"
for p in $(python3 -c "import json;print(' '.join(c['property_id'] for c in json.load(open('/verif/MANIFEST.json'))['checks']))"); do
  r=$(${SIGVERIF:-/verif/bin/sigverif} -repo "$target" check $p 2>&1); rc=$?
  echo "== $p exit=$rc" >> "$out"
  echo "$r" | grep -E "^VIOLATION|^KNOWN|GENERATOR" | cut -c1-300 >> "$out"
done
rm -rf "$target"
head -1 "$out"; echo "alarms: $(grep -E "^== .* exit=[12]" "$out" | tr '\n' ' ')"
