#!/bin/bash
# usage: mutrun.sh '<sed-expr>' <file> -- <sigverif args...>
# Copies /repo to a scratch dir outside /repo and /verif, applies the sed expression to <file>,
# checks that it still builds, runs sigverif against the copy, removes the copy.
set -u
expr="$1"; file="$2"; shift 3
d=$(mktemp -d /var/tmp/sigmut.XXXXXX)
trap 'rm -rf "$d"' EXIT
cp -r /repo/. "$d"/ && rm -rf "$d/.git"
sed -i "$expr" "$d/$file"
if diff -q /repo/$file "$d/$file" >/dev/null; then echo "MUTATION DID NOT APPLY"; exit 3; fi
export GOFLAGS=-mod=mod GOPROXY=off GOSUMDB=off GOTOOLCHAIN=local
(cd "$d" && go build ./... ) || { echo "MUTANT DOES NOT BUILD"; exit 3; }
${SIGVERIF:-/verif/bin/sigverif} -repo "$d" "$@"
