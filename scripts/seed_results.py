#!/usr/bin/env python3
"""Builds /verif/seeded/RESULTS.md from seeded/*/{meta.json,confirmation.txt,checks.txt}."""
import json, os, re, glob
rows=[]
for d in sorted(glob.glob('/verif/seeded/C*')):
    sid=os.path.basename(d)
    meta={}
    try: meta=json.load(open(d+'/meta.json'))
    except Exception as e: pass
    conf=open(d+'/confirmation.txt').read() if os.path.exists(d+'/confirmation.txt') else ''
    ok=all(x in conf for x in ['suite_passes_with_change: yes','demo_fails_with_change: yes','demo_passes_without_change: yes'])
    alarms={}; confirmed={}
    cur=None
    if os.path.exists(d+'/checks.txt'):
        for l in open(d+'/checks.txt'):
            m=re.match(r'== (C\d+) exit=(\d+)',l)
            if m: cur=m.group(1); alarms[cur]=[]; continue
            if l.startswith('VIOLATION') and cur:
                ob=re.search(r'obligation=(\S+)',l).group(1)
                ob=re.sub(r'\[[^\]]*\]','',ob)
                alarms[cur].append(ob+('' if 'no-failing-input-found' in l else ' (replayed)'))
    # own.txt (scripts/seedown.sh): the own property re-run with the current engine; it supersedes the
    # own-property rows of checks.txt (the full matrix may stem from an earlier engine version)
    if os.path.exists(d+'/own.txt'):
        cur=None
        for l in open(d+'/own.txt'):
            m=re.match(r'== (C\d+) exit=(\d+)',l)
            if m: cur=m.group(1); alarms[cur]=[]; continue
            if l.startswith('VIOLATION') and cur:
                ob=re.search(r'obligation=(\S+)',l).group(1)
                ob=re.sub(r'\[[^\]]*\]','',ob)
                alarms[cur].append(ob+('' if 'no-failing-input-found' in l else ' (replayed)'))
    hit=[p for p,a in alarms.items() if a]
    rows.append((sid,meta.get('summary','').replace('|','/'),meta.get('needs','').replace('|','/'),ok,alarms,hit))
out=['# Seeded changes and the checks that catch them','',
 'Each change was written by an independent sub-agent that saw only the property text and a scratch worktree (nothing from /verif).',
 'I confirmed each one myself (`confirmation.txt`: suite passes with the change, the demonstration fails with it and passes without it) and ran every registered quick check against it (`checks.txt`; `scripts/seedtest.sh`).',
 'The own-property column is from `own.txt`, re-run with the final engine (`scripts/seedown.sh`); the last column is from the full matrix at the time the seed was added. "(replayed)" = failing input confirmed on the real code.','',
 '| seed | change | needs | confirmed | caught by own property | obligations of the own property | other properties that alarm |','|---|---|---|---|---|---|---|']
for sid,summ,needs,ok,alarms,hit in rows:
    prop=sid[:3]
    own=alarms.get(prop,[])
    others=[p for p in hit if p!=prop]
    out.append(f"| {sid} | {summ[:160]} | {needs[:120]} | {'yes' if ok else 'NO'} | {'yes' if own else ('NOT RUN' if prop not in alarms else 'NO')} | {'; '.join(sorted(set(own))[:4])} | {' '.join(others)} |")
open('/verif/seeded/RESULTS.md','w').write('\n'.join(out)+'\n')
print('\n'.join(out[-len(rows):]))
