#!/usr/bin/env python3
"""Soundness self-test of the replay oracles: on the UNCHANGED code, a deliberately false clause
`ensures[bogus: Cxx] 0 == 0 - 1` is added to one function's contract in a scratch copy. The check must
report that clause, and the replay must confirm it on the real code WITHOUT blaming any genuine clause and
without any other oracle (panic, modification, allocation, destination-independence) firing: every genuine
clause holds on the real code, so anything else reported would be a false confirmation.
usage: replay_selftest.py [filter]"""
import json, glob, os, re, shutil, subprocess, sys, tempfile
ENV = dict(os.environ, GOFLAGS='-mod=mod', GOPROXY='off', GOSUMDB='off', GOTOOLCHAIN='local')
CASES = [('Buffer.Append', 'C03'), ('Buffer.Slice', 'C02'), ('Buffer.AppendSample', 'C04'), ('FloatAsFloat', 'C05'),
         ('FloatAsSigned', 'C05'), ('SignedAsSigned', 'C05'), ('UnsignedAsFloat', 'C05'), ('Read', 'C01'), ('Write', 'C01'),
         ('ReadStriped', 'C01'), ('WriteStriped', 'C01'), ('PoolAllocator.Get', 'C10'), ('PoolAllocator.Put', 'C10'),
         ('Alloc', 'C13'), ('C.Sample', 'C14'), ('C.SetSample', 'C14'), ('Buffer.Length', 'C12')]
flt = sys.argv[1] if len(sys.argv) > 1 else ''
bad = 0
for fn, prop in CASES:
    if flt and not re.search(flt, fn):
        continue
    d = tempfile.mkdtemp(prefix='rst.', dir='/var/tmp')
    try:
        subprocess.run(f'cp -r /repo/. {d}/ && rm -rf {d}/.git', shell=True)
        p = d + '/verif_contracts.go'
        s = open(p).read()
        m = re.search(r'^//@ func ' + re.escape(fn) + r'[\[(]', s, re.M)
        i = m.start()
        j = s.index('\n\n', i)          # end of the contract block
        k = s.find('//@   modifies', i, j)
        lk = s.find('//@   loop ', i, j)
        pos = k if k >= 0 else (lk if lk >= 0 else j + 1)
        s = s[:pos] + f'//@   ensures[bogus: {prop}] 0 == 0 - 1\n' + s[pos:]
        open(p, 'w').write(s)
        for f in glob.glob(f'/verif/replays/{prop}-*bogus*.json'):
            os.remove(f)
        r = subprocess.run(f'/verif/bin/sigverif -repo {d} check {prop}', shell=True, env=ENV, capture_output=True, text=True)
        viol = [l for l in r.stdout.splitlines() if l.startswith('VIOLATION')]
        other = [l for l in viol if 'bogus' not in l]
        msgs = []
        if not viol:
            msgs.append('bogus clause not reported')
        if other:
            msgs.append('other obligations reported: ' + other[0][:120])
        nconf = 0
        for f in glob.glob(f'/verif/replays/{prop}-*bogus*.json'):
            rec = json.load(open(f)); rp = rec.get('replay', {}) or {}
            vc = rp.get('violated_clauses_on_real_code') or []
            out = rp.get('test_output', '') or ''
            conf = [l for l in out.splitlines() if 'REPLAY-CONFIRMED' in l]
            if rec.get('confirmed_on_real_code'):
                nconf += 1
            if any(c != 'ensures:bogus' for c in vc):
                msgs.append(f'genuine clause blamed on correct code: {vc}')
            if conf:
                msgs.append('an executable oracle fired on correct code: ' + conf[0][:140])
        print(('ok   ' if not msgs else 'FAIL ') + f'{fn} ({prop}): {len(viol)} violation line(s), {nconf} confirmed by the bogus clause alone' + (' -- ' + '; '.join(msgs) if msgs else ''), flush=True)
        bad += 1 if msgs else 0
    finally:
        shutil.rmtree(d, ignore_errors=True)
print(f'{bad} failing case(s)')
sys.exit(1 if bad else 0)
