#!/usr/bin/env python3
"""Mutation analysis of the checks (scripts/mutation.py [phase1|phase2|report] [filter]).

phase1: every single-point mutant of /repo's non-test sources (bin/mutgen) is built and run against the
        pinned suite in a scratch copy under /var/tmp; mutants that compile and pass the suite are kept as
        /verif/mutation/<file>_<id>.diff with one line in /verif/mutation/survive_tests.tsv.
phase2: for each kept mutant, every registered quick check whose property is named in the contract of the
        mutated function is run against a scratch copy with the mutant applied; alarms are recorded in
        /verif/mutation/results.tsv. A mutant no check notices is either equivalent or a gap in the contracts.
report: writes /verif/mutation/RESULTS.md
Nothing is ever applied to /repo itself.
"""
import os, re, subprocess, sys, shutil, tempfile, json
from concurrent.futures import ThreadPoolExecutor
ENV = dict(os.environ, GOFLAGS='-mod=mod', GOPROXY='off', GOSUMDB='off', GOTOOLCHAIN='local')
FILES = ['signal.go', 'buffer.go', 'channel.go', 'pool.go', 'allocator.go']
OUT = '/verif/mutation'

def sh(cmd, cwd=None, timeout=None):
    try:
        r = subprocess.run(cmd, shell=True, cwd=cwd, env=ENV, capture_output=True, text=True, timeout=timeout)
        return r.returncode, r.stdout + r.stderr
    except subprocess.TimeoutExpired:
        return 124, 'timeout'

def scratch(f, mid):
    d = tempfile.mkdtemp(prefix='mut.', dir='/var/tmp')
    sh(f'cp -r /repo/. {d}/ && rm -rf {d}/.git')
    rc, out = sh(f'/verif/bin/mutgen -file /repo/{f} -id {mid} -o {d}/{f}')
    return d if rc == 0 else None

def mutants(flt):
    ms = []
    for f in FILES:
        rc, out = sh(f'/verif/bin/mutgen -file /repo/{f} -list')
        for l in out.splitlines():
            p = l.split('\t')
            if len(p) == 4 and (not flt or re.search(flt, f + ':' + p[1])):
                ms.append((f, int(p[0]), p[1], int(p[2]), p[3]))
    return ms

def phase1(flt):
    def one(m):
        f, mid, fn, line, desc = m
        d = scratch(f, mid)
        try:
            rc, out = sh('go build ./... ', cwd=d, timeout=120)
            if rc != 0:
                return m, 'nocompile'
            rc, out = sh('go test -count=1 -timeout 60s ./...', cwd=d, timeout=180)
            if rc != 0:
                return m, 'killed-by-tests'
            sh(f'diff -u /repo/{f} {d}/{f} > {OUT}/{f[:-3]}_{mid}.diff')
            return m, 'survives-tests'
        finally:
            shutil.rmtree(d, ignore_errors=True)
    have = set()
    if os.path.exists(f'{OUT}/phase1.tsv'):
        for l in open(f'{OUT}/phase1.tsv'):
            q = l.split('\t'); have.add((q[0], int(q[1])))
    ms = [m for m in mutants(flt) if (m[0], m[1]) not in have]
    with ThreadPoolExecutor(8) as ex:
        res = list(ex.map(one, ms))
    with open(f'{OUT}/phase1.tsv', 'a') as w:
        for (f, mid, fn, line, desc), st in res:
            w.write(f'{f}\t{mid}\t{fn}\t{line}\t{desc}\t{st}\n')
    from collections import Counter
    print(Counter(st for _, st in res))

def contract_props():
    props, cur = {}, None
    for l in open('/repo/verif_contracts.go'):
        m = re.match(r'//@ func ([\w.]+)', l)
        if m:
            cur = m.group(1); props[cur] = set(); continue
        if cur and l.startswith('//@'):
            props[cur].update(re.findall(r'\bC\d\d\b', l))
        elif not l.startswith('//@'):
            cur = None
    return props

# properties whose lemmas use the function without being named in its contract block
EXTRA = {'FloatAsSigned': {'C09'}, 'FloatAsUnsigned': {'C09'}}

def phase2(flt):
    cp = contract_props()
    done = set()
    if os.path.exists(f'{OUT}/results.tsv'):
        for l in open(f'{OUT}/results.tsv'):
            p = l.rstrip('\n').split('\t'); done.add((p[0], int(p[1])))
    for l in open(f'{OUT}/phase1.tsv'):
        f, mid, fn, line, desc, st = l.rstrip('\n').split('\t'); mid = int(mid)
        if st != 'survives-tests' or (f, mid) in done or (flt and not re.search(flt, f + ':' + fn)):
            continue
        props = sorted(cp.get(fn, set()) | EXTRA.get(fn, set())) or ['C18', 'C19']
        d = scratch(f, mid)
        alarms, confirmed = [], []
        try:
            # cheap checks first; with MUT_FIRST=1 stop at the first alarm ("noticed" is what counts)
            cost = {'C15': 0, 'C18': 1, 'C19': 2, 'C13': 3, 'C16': 3, 'C02': 3, 'C04': 3, 'C14': 4, 'C17': 4, 'C05': 5, 'C06': 5, 'C07': 5,
                    'C12': 6, 'C03': 6, 'C10': 7, 'C11': 7, 'C01': 8, 'C20': 8, 'C08': 9, 'C09': 9}
            for p in sorted(props, key=lambda q: cost.get(q, 5)):
                rc, out = sh(f'{os.environ.get("MUT_BIN", "/verif/bin/sigverif")} -repo {d} check {p}', timeout=900)
                if rc != 0 or 'VIOLATION' in out:
                    alarms.append(p)
                    if any('VIOLATION' in x and 'no-failing-input-found' not in x for x in out.splitlines()):
                        confirmed.append(p)
                    if os.environ.get('MUT_FIRST'):
                        alarms.append('(stopped-at-first-alarm)')
                        break
        finally:
            shutil.rmtree(d, ignore_errors=True)
        with open(f'{OUT}/results.tsv', 'a') as w:
            w.write(f'{f}\t{mid}\t{fn}\t{line}\t{desc}\t{" ".join(props)}\t{" ".join(alarms)}\t{" ".join(confirmed)}\n')
        print(f, mid, fn, line, desc, '->', ' '.join(alarms) or 'NOT NOTICED', flush=True)

def report():
    rows = [l.rstrip('\n').split('\t') for l in open(f'{OUT}/results.tsv')]
    p1 = [l.rstrip('\n').split('\t') for l in open(f'{OUT}/phase1.tsv')]
    from collections import Counter
    c = Counter(r[5] for r in p1)
    with open(f'{OUT}/RESULTS.md', 'w') as w:
        w.write('# Mutation analysis of the checks\n\n')
        w.write(f'{len(p1)} single-point mutants (bin/mutgen: operator swaps, literal changes, negated conditions, deleted statements; second pass: Len/Cap, Length/Capacity, len/cap, src/dst receivers, swapped call arguments and slice bounds, return 0) of the five non-test source files; '
                f'{c["nocompile"]} do not compile, {c["killed-by-tests"]} fail the pinned suite, **{c["survives-tests"]} compile and pass the suite**. '
                f'Of those, {sum(1 for r in rows if r[6])} raise an alarm in at least one check of a property named in the mutated function\'s contract '
                f'({sum(1 for r in rows if r[7])} with a failing input confirmed on the real code); {sum(1 for r in rows if not r[6])} are not noticed (classified below).\n\n')
        w.write('| file | id | function | line | mutation | checks run | alarms | confirmed on real code |\n|---|---|---|---|---|---|---|---|\n')
        for r in rows:
            w.write('| ' + ' | '.join(r[:6] + [r[6] or '**none**', r[7]]) + ' |\n')
        cls = {}
        if os.path.exists(f'{OUT}/classification.tsv'):
            for l in open(f'{OUT}/classification.tsv'):
                q = l.rstrip('\n').split('\t')
                if len(q) == 4: cls[(q[0], q[1])] = (q[2], q[3])
        w.write('\n## Mutants no check noticed (hand classification)\n\n| file | id | function | line | mutation | class | why |\n|---|---|---|---|---|---|---|\n')
        for r in rows:
            if not r[6]:
                c = cls.get((r[0], r[1]), ('UNCLASSIFIED', ''))
                w.write('| ' + ' | '.join(r[:5] + [c[0], c[1]]) + ' |\n')
    print('written')

if __name__ == '__main__':
    cmd = sys.argv[1]; flt = sys.argv[2] if len(sys.argv) > 2 else ''
    {'phase1': phase1, 'phase2': phase2}.get(cmd, lambda f: report())(flt)
