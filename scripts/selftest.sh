#!/bin/bash
# Must-fail / must-pass corpus: every line of selftest/cases.tsv is applied to a scratch copy of
# /repo (outside /repo and /verif, removed afterwards) and the named property check must fail /
# pass. Exit 0 iff every case behaves as expected.
cd /verif
bad=0; n=0; only="${1:-}"
while IFS=$'\t' read -r expect prop file expr why; do
  case "$expect" in \#*|"") continue;; esac
  [[ "$why" == placeholder* ]] && continue
  if [ -n "${EXPECT:-}" ] && [ "$expect" != "$EXPECT" ]; then continue; fi
  if [ -n "$only" ] && [[ "$why" != *"$only"* ]] && [ "$prop" != "$only" ]; then continue; fi
  n=$((n+1))
  out=$(scripts/mutrun.sh "$expr" "$file" -- check "$prop" 2>&1); rc=$?
  if echo "$out" | grep -q "MUTATION DID NOT APPLY\|MUTANT DOES NOT BUILD"; then echo "SKIP  $prop $why: $(echo "$out" | grep -m1 MUTA)"; bad=$((bad+1)); continue; fi
  viol=$(echo "$out" | grep -c "^VIOLATION")
  if [ "$expect" = fail ] && [ "$viol" -eq 0 ]; then echo "MISSED $prop: $why"; bad=$((bad+1));
  elif [ "$expect" = pass ] && [ "$viol" -ne 0 ]; then echo "FALSE-ALARM $prop: $why"; echo "$out" | grep "^VIOLATION" | head -3 | cut -c1-200; bad=$((bad+1));
  else echo "ok    $expect $prop: $why"; fi
done < selftest/cases.tsv
echo "$n cases, $bad unexpected"
[ $bad -eq 0 ]
