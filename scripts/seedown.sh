#!/bin/bash
# usage: seedown.sh <seed-id>   — runs only the check of the seed's own property against a scratch copy of /repo
# with the seeded change applied; writes /verif/seeded/<id>/own.txt (the full matrix is checks.txt, written by seedtest.sh)
set -u
id="$1"; p=${id:0:3}; dst=/verif/seeded/$id
export GOFLAGS=-mod=mod GOPROXY=off GOSUMDB=off GOTOOLCHAIN=local
target=$(mktemp -d /var/tmp/seedrepo.XXXXXX)
cp -r /repo/. "$target"/ && rm -rf "$target/.git"
( cd "$target" && patch -p1 -s < "$dst/patch.diff" ) || { echo "cannot apply"; rm -rf "$target"; exit 2; }
r=$(${SIGVERIF:-/verif/bin/sigverif} -repo "$target" check $p 2>&1); rc=$?
{ echo "== $p exit=$rc"; echo "$r" | grep -E "^VIOLATION|^KNOWN|GENERATOR" | cut -c1-300; } > "$dst/own.txt"
rm -rf "$target"
echo "$id: exit=$rc own=$(grep -c "^VIOLATION property=$p " $dst/own.txt) real=$(grep "^VIOLATION property=$p " $dst/own.txt | grep -vc 'generator/') confirmed=$(grep "^VIOLATION property=$p " $dst/own.txt | grep -vc no-failing-input-found)"
