#!/usr/bin/env python3
"""Regenerates /verif/MANIFEST.json from the table below (kept in one place so it stays valid)."""
import json, subprocess
props=[json.loads(l) for l in open('/verif/properties.jsonl')]
ENV="GOFLAGS=-mod=mod GOPROXY=off GOSUMDB=off GOTOOLCHAIN=local"
# id -> (claimed?, design_ref, text, note, technique)
T={}
def claim(i,ref,text,note,tech="contract-based deductive verification: weakest-precondition VCs over the typed AST of /repo, discharged by z3/cvc5"):
    T[i]=(ref,text,note,tech)
hooks=subprocess.run(['git','-C','/repo','log','--grep','^verif:','--format=%H'],capture_output=True,text=True).stdout.split()
exec(open('/verif/scripts/claims.py').read())
checks=[];na=[]
for p in props:
    i=p['id']
    if i in T:
        ref,text,note,tech=T[i]
        checks.append({"property_id":i,
          "quick_cmd":f"/verif/bin/sigverif check {i} --tier quick",
          "thorough_cmd":f"/verif/bin/sigverif check {i} --tier thorough",
          "evidence_file":f"/verif/evidence/{i}.json",
          "replay_cmd_template":"/verif/bin/sigverif replay {path}",
          "engine":"sigverif",
          "level_claimed":{"category":"proof","text":text,"design_ref":ref},
          "level_note":note,"technique":tech})
    else:
        na.append({"property_id":i,"reason":NA.get(i,"check under construction (contracts not yet complete for this property)")})
m={"version":1,
 "setup_cmd":f"cd /verif && {ENV} go build -o bin/sigverif ./cmd/sigverif",
 "hooks":{"guard":"verif","enable":"go build -tags verif ./... (the only hook is /repo/verif_contracts.go: //go:build verif, package clause and comments only)",
   "baseline_off_cmd":f"cd /repo && {ENV} go test -vet=off -count=1 ./...","source_commits":hooks,"add_only":True},
 "engines":[{"name":"sigverif","path":"/verif/cmd/sigverif","serves_properties":sorted(T.keys()),
   "kind_free_text":"VC generator for the Go subset of the package (go/packages + go/types), contracts read from /repo/verif_contracts.go, SMT back ends z3 5.1.0 / z3 4.8.12 / cvc5 1.0.3"}],
 "checks":checks,"not_applicable":na,
 "notes":"See /verif/DESIGN.md. Known findings: /verif/known_findings.txt."}
json.dump(m,open('/verif/MANIFEST.json','w'),indent=1)
print(len(checks),'checks',len(na),'not applicable')
