package main

import (
	"math/big"
	"strings"
)

// Summary is the result of a loop-free pure function as a term over its
// parameters, extracted from the real body by symbolic execution (realfloat
// mode), together with the definitions of named intermediates, the arguments
// of rnd seen and the precondition.
type Summary struct {
	U      *Unit
	Params map[string]*Term // contract binding name -> symbol
	Result *Term
	Defs   []*Term
	Pre    []*Term
	Rnd    []*Term
	Rnd32  []*Term
	Err    string
}

func (s *Session) summarize(key string) *Summary {
	fi, ct := s.prog.Funcs[key], s.cf.Funcs[key]
	sm := &Summary{Params: map[string]*Term{}}
	if fi == nil || ct == nil {
		sm.Err = "function or contract missing: " + key
		return sm
	}
	insts := s.instsFor(fi, ct)
	u := newUnit(s.prog, s.cf, fi, ct, insts[0], ct.Mode)
	func() {
		defer func() {
			if r := recover(); r != nil {
				u.errorf("generator panic: %v", r)
			}
		}()
		u.verifyFunc()
	}()
	sm.U = u
	if len(u.errs) > 0 {
		sm.Err = strings.Join(u.errs, "; ")
		return sm
	}
	var normal []*Exit
	for _, e := range u.exits {
		if !e.panic {
			normal = append(normal, e)
		}
	}
	if len(normal) == 0 {
		sm.Err = "the function has no normal exit"
		return sm
	}
	// several exits: the result is the ite over the branch conditions of each exit
	var res *Term
	for i := len(normal) - 1; i >= 0; i-- {
		e := normal[i]
		if len(e.rets) != 1 || e.rets[0].Term == nil {
			sm.Err = "the function does not return a single scalar"
			return sm
		}
		if res == nil {
			res = e.rets[0].Term
		} else {
			res = Ite(And(e.st.branch...), e.rets[0].Term, res)
		}
	}
	sm.Result = res
	sm.Defs = u.defs
	sm.Rnd = u.rndArgs
	sm.Rnd32 = u.rndArgs32
	sm.Pre = u.old.assume
	for n, v := range u.entry {
		if v.Term != nil {
			sm.Params[n] = v.Term
		}
	}
	return sm
}

// instance renames every declared symbol of the summary with the suffix,
// except parameters, which are replaced by the given terms.
type SummaryInst struct {
	Result *Term
	Facts  []*Term // definitions and precondition
	Rnd    []*Term
	Rnd32  []*Term
}

func (sm *Summary) instance(args map[string]*Term, suffix string) *SummaryInst {
	paramSym := map[string]*Term{}
	for n, sym := range sm.Params {
		if a, ok := args[n]; ok {
			paramSym[sym.Op] = a
		}
	}
	var ren func(t *Term) *Term
	ren = func(t *Term) *Term {
		if len(t.Args) == 0 {
			if t.Decl {
				if a, ok := paramSym[t.Op]; ok {
					return a
				}
				if _, isFun := sm.U.ctx.Funs[t.Op]; isFun {
					return t
				}
				n := *t
				n.Op = t.Op + suffix
				return &n
			}
			return t
		}
		n := *t
		n.Args = make([]*Term, len(t.Args))
		for i, a := range t.Args {
			n.Args[i] = ren(a)
		}
		return &n
	}
	si := &SummaryInst{Result: ren(sm.Result)}
	for _, d := range sm.Defs {
		si.Facts = append(si.Facts, ren(d))
	}
	for _, p := range sm.Pre {
		si.Facts = append(si.Facts, ren(p))
	}
	for _, r := range sm.Rnd {
		si.Rnd = append(si.Rnd, ren(r))
	}
	for _, r := range sm.Rnd32 {
		si.Rnd32 = append(si.Rnd32, ren(r))
	}
	return si
}

func realInt(n int64) *Term { return realOfRat(new(big.Rat).SetInt64(n)) }

// C17: lemmas over the summaries of Duration and Events.
func (s *Session) lemmasC17() []*Obligation {
	var out []*Obligation
	dur := s.summarize("Frequency.Duration")
	evt := s.summarize("Frequency.Events")
	for _, sm := range []*Summary{dur, evt} {
		if sm.Err != "" {
			out = append(out, &Obligation{Name: "Frequency/summary-extracted", Kind: "kernel-local", Props: []string{"C17"}, Goal: False, Ctx: NewCtx(), Fn: "Frequency", Note: sm.Err})
			return out
		}
	}
	abs := func(t *Term) *Term { return Ite(Ge(t, RealLit("0.0")), t, mk("-", SReal, t)) }
	mkObl := func(name string, ctx *Ctx, insts []*SummaryInst, hints []*Term, assume []*Term, goal *Term) {
		lu := &Unit{ctx: ctx}
		var facts []*Term
		for _, in := range insts {
			facts = append(facts, in.Facts...)
			for _, r := range in.Rnd {
				lu.noteRnd(r)
			}
			for _, r := range in.Rnd32 {
				lu.noteRnd32(r)
			}
		}
		ax := lu.rfAxioms(hints)
		all := append(append(append([]*Term{}, ax...), facts...), assume...)
		out = append(out, &Obligation{Name: "Frequency/lemma:" + name, Kind: "lemma", Props: []string{"C17"}, Assume: all, Goal: goal, Ctx: ctx, Fn: "Frequency",
			Note: "over the summaries extracted from Duration/Events; standard model of IEEE rounding"})
	}
	eps := mk("/", SReal, RealLit("1.0"), RealLit(pow2(51).String()+".0"))
	half := RealLit("0.5")
	e9 := RealLit("1000000000.0")
	{ // accuracy and order of Duration
		ctx := dur.U.ctx
		f := ctx.Const("f", SReal)
		n1, n2 := ctx.Const("n1", SInt), ctx.Const("n2", SInt)
		d1 := dur.instance(map[string]*Term{"f": f, "events": n1}, "_a")
		d2 := dur.instance(map[string]*Term{"f": f, "events": n2}, "_b")
		exact := mk("/", SReal, mk("*", SReal, e9, mk("to_real", SReal, n1)), f)
		mkObl("duration-accuracy", ctx, []*SummaryInst{d1}, nil, nil,
			Le(abs(mk("-", SReal, mk("to_real", SReal, d1.Result), exact)), mk("+", SReal, half, mk("*", SReal, eps, exact))))
		mkObl("duration-monotone", ctx, []*SummaryInst{d1, d2}, nil, []*Term{Le(n1, n2)}, Le(d1.Result, d2.Result))
	}
	{ // accuracy and order of Events
		ctx := evt.U.ctx
		f := ctx.Const("f", SReal)
		t1, t2 := ctx.Const("t1", SInt), ctx.Const("t2", SInt)
		e1 := evt.instance(map[string]*Term{"f": f, "d": t1}, "_a")
		e2 := evt.instance(map[string]*Term{"f": f, "d": t2}, "_b")
		exact := mk("/", SReal, mk("*", SReal, f, mk("to_real", SReal, t1)), e9)
		mkObl("events-accuracy", ctx, []*SummaryInst{e1}, nil, nil,
			Le(abs(mk("-", SReal, mk("to_real", SReal, e1.Result), exact)), mk("+", SReal, half, mk("*", SReal, eps, exact))))
		mkObl("events-monotone", ctx, []*SummaryInst{e1, e2}, nil, []*Term{Le(t1, t2)}, Le(e1.Result, e2.Result))
	}
	{ // round trip for rates up to 1 MHz and spans up to 24 h
		ctx := NewCtx()
		for k, v := range dur.U.ctx.Funs {
			ctx.Funs[k] = v
		}
		for k, v := range evt.U.ctx.Funs {
			ctx.Funs[k] = v
		}
		f := ctx.Const("f", SReal)
		n := ctx.Const("n", SInt)
		d := dur.instance(map[string]*Term{"f": f, "events": n}, "_d")
		e := evt.instance(map[string]*Term{"f": f, "d": d.Result}, "_e")
		assume := []*Term{Gt(f, RealLit("0.0")), Le(f, RealLit("1000000.0")), Le(IntLit(0), n), Le(mk("to_real", SReal, n), mk("*", SReal, RealLit("86400.0"), f))}
		mkObl("count-duration-count-roundtrip", ctx, []*SummaryInst{d, e}, []*Term{mk("to_real", SReal, n)}, assume, Eq(e.Result, n))
	}
	return out
}
