package main

import (
	"fmt"
	"go/types"
	"sort"
)

type Kind int

const (
	KInt    Kind = iota // mathematical index integer (Go int and named ints)
	KBool               // Bool
	KNum                // sample / fixed-width numeric: BV, FP, abstract sort or RF pair
	KSlice              // []T  (Ptr, Len, Cap over heap of Elem)
	KBuf                // *Buffer[T]: object id
	KStruct             // struct value (Allocator, C[T], PoolAllocator[T], Buffer literal)
	KPtrData            // &b.data : pointer to the data field of buffer object Term
	KString
	KPool // *sync.Pool: pool id
	KUnit
	KClosure
	KIface // interface value wrapping another value (any(...))
)

type Value struct {
	K      Kind
	T      types.Type // concrete Go type (after instantiation); may be nil for spec-only values
	Term   *Term      // KInt KBool KNum KBuf KPool KPtrData(object id)
	Ptr    *Term      // KSlice
	Len    *Term
	Cap    *Term
	Elem   types.Type // KSlice element type, KBuf/KPtrData element type
	Fields map[string]Value
	// realfloat: Term = real value, Spec = kind (0 finite, 1 +inf, 2 -inf, 3 nan)
	Spec  *Term
	Inner *Value // KIface
	Str   string
}

func (v Value) String() string {
	switch v.K {
	case KSlice:
		return fmt.Sprintf("slice(%s,%s,%s)", v.Ptr, v.Len, v.Cap)
	case KStruct:
		return fmt.Sprintf("struct%v", v.Fields)
	}
	if v.Term != nil {
		return v.Term.String()
	}
	return fmt.Sprintf("<value kind %d>", v.K)
}

// State is one symbolic execution state.
type State struct {
	vars    map[types.Object]Value
	mem     map[string]*Term // state components by name
	assume  []*Term
	guard   []*Term // conditional-evaluation guards (short-circuit operators)
	retVals []Value
	dead    bool
	branch  []*Term // branch conditions taken (for kernel extraction)
	kord    int     // last kernel loop executed on this path
}

func (s *State) clone() *State {
	n := &State{vars: make(map[types.Object]Value, len(s.vars)), mem: make(map[string]*Term, len(s.mem))}
	for k, v := range s.vars {
		n.vars[k] = v
	}
	for k, v := range s.mem {
		n.mem[k] = v
	}
	n.assume = append([]*Term{}, s.assume...)
	n.guard = append([]*Term{}, s.guard...)
	n.branch = append([]*Term{}, s.branch...)
	n.kord = s.kord
	return n
}

func (s *State) Assume(t *Term) {
	if isTrue(t) {
		return
	}
	if len(s.guard) > 0 {
		t = Imp(And(s.guard...), t)
	}
	s.assume = append(s.assume, t)
}

func (s *State) memKeys() []string {
	var ks []string
	for k := range s.mem {
		ks = append(ks, k)
	}
	sort.Strings(ks)
	return ks
}

// Memory components.
//
//   H:<elem>      (Array Int E)  element heap of element type <elem>
//   brk:<elem>    Int            allocation watermark of that heap
//   ch:<elem> dptr:<elem> dlen:<elem> dcap:<elem> (Array Int Int), bd:<elem> (Array Int BV8)
//                                header fields of *Buffer[<elem>] objects
//   obrk:<elem>   Int            watermark of Buffer[<elem>] object ids
//   SP:<elem> SL:<elem> SC:<elem> (Array Int Int)  heap of slice headers for [][]<elem>
//   sbrk:<elem>   Int
//   allocs        Int            ghost count of heap allocations
//   items         (Array Int (Array Int Bool))  ghost: pool id -> set of pooled buffer ids
//   pnC pnL pnK   (Array Int Int) ghost: allocator captured by the pool's New closure
//   pbrk          Int            watermark of pool ids

type Obligation struct {
	Name   string // <func>[<inst>]/<label>
	Kind   string
	Props  []string
	Assume []*Term
	Goal   *Term // nil for cover (expect sat)
	Ctx    *Ctx
	Cover  bool
	NoAxioms bool
	Bounded bool
	Soft bool // thorough-tier extra: only a definite refutation counts, timeouts are listed as undecided
	Axioms []*Term
	Tier string
	Logic  string
	// filled by the driver
	Res *SolveResult
	Txt string
	// replay info
	Fn       string
	InstName string
	Inputs   map[string]string // symbolic input name -> SMT constant name
	Note     string
}
