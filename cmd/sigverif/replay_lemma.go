package main

import (
	"fmt"
	"go/types"
	"math/big"
	"os"
	"os/exec"
	"path/filepath"
	"regexp"
	"strings"
)

var reLemmaName = regexp.MustCompile(`^([A-Za-z.]+)\[([^\]]*)\]/lemma:(.*)$`)

// solveGround evaluates ground terms: returns values of the given terms (the
// assertions are expected to be satisfiable constants-only formulas).
func solveGround(ctx *Ctx, asserts []*Term, terms []*Term) (map[string]string, string) {
	script := Script(ctx, "ALL", asserts, nil, false)
	return evalTerms(script, terms, 20)
}

func ratToFloat64Bits(r *big.Rat) uint64 {
	f, _ := r.Float64()
	return mathFloat64bits(f)
}

// replayLemma: kernel lemmas (C06-C09) and summary lemmas (C17).
func (s *Session) replayLemma(prop string, o *Obligation) (bool, map[string]interface{}) {
	if strings.HasPrefix(o.Name, "Frequency/lemma:") {
		return s.replayFrequency(o)
	}
	m := reLemmaName.FindStringSubmatch(o.Name)
	if m == nil || o.Res == nil || o.Res.Model == nil {
		return false, nil
	}
	key, instName, lemma := m[1], m[2], m[3]
	fi, ct := s.prog.Funcs[key], s.cf.Funcs[key]
	if fi == nil || ct == nil {
		return false, nil
	}
	var inst *Inst
	for _, in := range s.instsFor(fi, ct) {
		if in.Name == instName {
			inst = in
		}
	}
	if inst == nil {
		return false, nil
	}
	ki := s.preciseKernel(key, inst)
	if !ki.OK {
		return false, map[string]interface{}{"note": "no kernel: " + ki.Why}
	}
	u := ki.U
	det := map[string]interface{}{"lemma": lemma, "model": o.Res.Model}
	// concrete inputs from the model: x / y (bit-precise) or X / Y (standard model)
	lit := func(names ...string) *Term {
		for _, n := range names {
			v, ok := o.Res.Model[n]
			if !ok {
				continue
			}
			if isFloatT(ki.S) {
				if bits, w, ok := fpBits(v); ok {
					return fpFromBits(bits, w)
				}
				// rational value of the standard model: nearest float
				if r, ok := ratOfLiteral(strings.ReplaceAll(v, "?", "")); ok {
					if basicOf(ki.S).Kind() == types.Float32 {
						f, _ := r.Float32()
						return fpFromBits(uint64(mathFloat32bits(f)), 32)
					}
					return fpFromBits(ratToFloat64Bits(r), 64)
				}
			} else {
				if n, w, ok := parseSMTBV(v); ok {
					return BVLit(n, w)
				}
				if n, ok := parseSMTInt(v); ok {
					return BVLit(n, u.widthOf(ki.S))
				}
			}
		}
		return nil
	}
	x := lit("x", "X")
	y := lit("y", "Y")
	if x == nil && isIntegerT(ki.S) {
		// reference-level lemmas are about one constant code
		switch lemma {
		case "lowest":
			x = u.lowestCode(ki.S)
		case "highest":
			x = u.highestCode(ki.S)
		case "zero":
			x = u.zeroCode(ki.S)
		}
	}
	if x == nil {
		det["note"] = "the model does not fix the input sample"
		return false, det
	}
	// the lemma at that point, bit-precisely
	holds, evaluated := s.lemmaHoldsAt(prop, lemma, ki, key, inst, x, y)
	det["bit_precise_goal_evaluated"] = evaluated
	if evaluated && holds {
		det["note"] = "the counterexample of the standard-model lemma does not violate the bit-precise statement at this input (spurious model of the abstraction)"
		return false, det
	}
	if strings.HasPrefix(lemma, "roundtrip") && isIntegerT(ki.S) && isFloatT(ki.D) {
		// the round trip itself on the real code: fixed -> float -> fixed at the model's code
		back := pick(isSignedT(ki.S), "FloatAsSigned", "FloatAsUnsigned")
		sT, dT := goTypeName(ki.S), goTypeName(ki.D)
		inLit, ok := u.goLitNum(ki.S, smtValueOf(x))
		if !ok {
			det["note"] = "could not render the model value as a Go literal"
			return false, det
		}
		within := strings.Contains(lemma, "within-one")
		var sb strings.Builder
		sb.WriteString("package signal\n\nimport (\n\t\"fmt\"\n\t\"testing\"\n)\n\nfunc TestVerifReplay(t *testing.T) {\n")
		fmt.Fprintf(&sb, "\tsrc := Alloc[%s](Allocator{Channels: 1, Length: 1, Capacity: 1})\n\tmid := Alloc[%s](Allocator{Channels: 1, Length: 1, Capacity: 1})\n\tdst := Alloc[%s](Allocator{Channels: 1, Length: 1, Capacity: 1})\n", sT, dT, sT)
		fmt.Fprintf(&sb, "\tsrc.SetSample(0, %s)\n\t%s(src, mid)\n\t%s(mid, dst)\n\tx, f, r := src.Sample(0), mid.Sample(0), dst.Sample(0)\n", inLit, key, back)
		sb.WriteString("\tfmt.Printf(\"REPLAY-SAMPLE in=%v float=%v back=%v\\n\", x, f, r)\n")
		if within {
			sb.WriteString("\tbad := int64(r)-int64(x) > 1 || int64(x)-int64(r) > 1\n")
		} else {
			sb.WriteString("\tbad := r != x\n")
		}
		fmt.Fprintf(&sb, "\tif bad {\n\t\tfmt.Println(\"REPLAY-CONFIRMED: %s then %s does not return the original sample\")\n\t} else {\n\t\tfmt.Println(\"REPLAY-MISMATCH: the real round trip returns the original sample at the model input\")\n\t}\n}\n", key, back)
		src := sb.String()
		det["test_source"] = src
		det["test_name"] = "TestVerifReplay"
		out, _ := runOverlayTest(src, "TestVerifReplay")
		det["test_output"] = truncate(out, 3000)
		return strings.Contains(out, "REPLAY-CONFIRMED"), det
	}
	// kernel fidelity at the counterexample: real code output == K(x)
	ctx := NewCtx()
	terms := []*Term{ki.apply(x)}
	inputs := []*Term{x}
	if y != nil {
		terms = append(terms, ki.apply(y))
		inputs = append(inputs, y)
	}
	vals, st := solveGround(ctx, nil, terms)
	if vals == nil {
		det["note"] = "could not evaluate the kernel at the model input: " + st
		return false, det
	}
	var sb strings.Builder
	sb.WriteString("package signal\n\nimport (\n\t\"fmt\"\n\t\"math\"\n\t\"testing\"\n)\n\nvar _ = math.Pi\n\nfunc TestVerifReplay(t *testing.T) {\n\tok := true\n")
	sT, dT := goTypeName(ki.S), goTypeName(ki.D)
	for i, in := range inputs {
		inLit, ok1 := u.goLitNum(ki.S, smtValueOf(in))
		wantLit, ok2 := u.goLitNum(ki.D, vals[terms[i].String()])
		if !ok1 || !ok2 {
			det["note"] = "could not render the model values as Go literals"
			return false, det
		}
		fmt.Fprintf(&sb, "\t{\n\t\tsrc := Alloc[%s](Allocator{Channels: 1, Length: 1, Capacity: 1})\n\t\tdst := Alloc[%s](Allocator{Channels: 1, Length: 1, Capacity: 1})\n", sT, dT)
		fmt.Fprintf(&sb, "\t\tsrc.SetSample(0, %s)\n\t\t%s(src, dst)\n\t\tgot, want := dst.Sample(0), %s\n", inLit, key, wantLit)
		fmt.Fprintf(&sb, "\t\tfmt.Printf(\"REPLAY-SAMPLE in=%%v got=%%v kernel=%%v\\n\", src.Sample(0), got, want)\n")
		if isFloatT(ki.D) {
			sb.WriteString("\t\tif !(got == want || (got != got && want != want)) {\n\t\t\tok = false\n\t\t}\n\t}\n")
		} else {
			sb.WriteString("\t\tif got != want {\n\t\t\tok = false\n\t\t}\n\t}\n")
		}
	}
	fmt.Fprintf(&sb, "\tif ok {\n\t\tfmt.Println(\"REPLAY-CONFIRMED: the real %s returns exactly the values for which the lemma %s fails\")\n\t} else {\n\t\tfmt.Println(\"REPLAY-MISMATCH: the extracted kernel and the real code disagree at the model input\")\n\t}\n}\n", key, lemma)
	src := sb.String()
	det["test_source"] = src
	det["test_name"] = "TestVerifReplay"
	out, _ := runOverlayTest(src, "TestVerifReplay")
	det["test_output"] = truncate(out, 3000)
	return strings.Contains(out, "REPLAY-CONFIRMED"), det
}

func smtValueOf(t *Term) string { return t.Op }

func fpFromBits(bits uint64, w int) *Term {
	if w == 32 {
		return &Term{Op: fmt.Sprintf("((_ to_fp 8 24) #x%08x)", bits), Sort: "(_ FloatingPoint 8 24)"}
	}
	return &Term{Op: fmt.Sprintf("((_ to_fp 11 53) #x%016x)", bits), Sort: "(_ FloatingPoint 11 53)"}
}

// lemmaHoldsAt evaluates the bit-precise form of a lemma at concrete inputs.
// Returns (holds, evaluated).
func (s *Session) lemmaHoldsAt(prop, lemma string, ki *KernelInfo, key string, inst *Inst, x, y *Term) (bool, bool) {
	assume, goal := bitPreciseLemma(lemma, ki, x, y)
	if goal == nil {
		return false, false
	}
	// holds iff assumptions are false or goal true at this point
	ctx := NewCtx()
	script := Script(ctx, "ALL", assume, goal, false)
	file := filepath.Join(workDir, "ground-"+hashText(script)+".smt2")
	os.WriteFile(file, []byte(script), 0o644)
	out, _ := exec.Command("z3-new", "-T:20", file).CombinedOutput()
	first := strings.TrimSpace(strings.SplitN(strings.TrimSpace(string(out)), "\n", 2)[0])
	switch first {
	case "unsat":
		return true, true
	case "sat":
		return false, true
	}
	return false, false
}

// bitPreciseLemma: the bit-precise (IEEE-754 / bit-vector) statement of a
// standard-model lemma of C08 / C09 at inputs x (and y); nil goal if there is none.
func bitPreciseLemma(lemma string, ki *KernelInfo, x, y *Term) ([]*Term, *Term) {
	u := ki.U
	var goal *Term
	var assume []*Term
	kx := ki.apply(x)
	var ky *Term
	if y != nil {
		ky = ki.apply(y)
	}
	one, mone := fp64(big.NewInt(1)), fp64(big.NewInt(-1))
	switch {
	case isIntegerT(ki.S) && isIntegerT(ki.D): // C06 / C07: the lemma is bit-precise already
		return nil, nil
	case isFloatT(ki.S): // C08
		xd := widen64(ki.S, x)
		switch lemma {
		case "mono":
			if y == nil {
				return nil, nil
			}
			assume = []*Term{fpLe(xd, widen64(ki.S, y))}
			goal = leCode(ki.D, kx, ky)
		case "accuracy-positive", "accuracy-nonpositive":
			d := u.widthOf(ki.D)
			if d > 32 {
				return nil, nil
			}
			A := sbvToFP("RNE", u.amp(ki.D, kx, d+1))
			fs := fp64(new(big.Int).Sub(pow2(d-1), big.NewInt(1)))
			if lemma == "accuracy-nonpositive" {
				fs = fp64(pow2(d - 1))
			}
			lo, hi := fpOp("fp.mul", "RTN", xd, fs), fpOp("fp.mul", "RTP", xd, fs)
			assume = []*Term{fpLt(mone, xd), fpLt(xd, one)}
			if lemma == "accuracy-nonpositive" {
				assume = append(assume, fpLe(xd, fp64(big.NewInt(0))))
			} else {
				assume = append(assume, mk("fp.gt", SBool, xd, fp64(big.NewInt(0))))
			}
			goal = And(fpLe(fpOp("fp.sub", "RNE", A, one), lo), fpLe(hi, fpOp("fp.add", "RNE", A, one)))
		default:
			return nil, nil
		}
	default: // C09
		kxd := widen64(ki.D, kx)
		d := u.widthOf(ki.S)
		switch lemma {
		case "range":
			goal = And(fpLe(mone, kxd), fpLe(kxd, one))
		case "mono":
			if y == nil {
				return nil, nil
			}
			assume = []*Term{leCode(ki.S, x, y)}
			goal = fpLe(kxd, widen64(ki.D, ky))
		case "accuracy":
			W := d + 1
			amp := u.amp(ki.S, x, W)
			a := sbvToFP("RNE", amp)
			fs := Ite(mk("bvsgt", SBool, amp, BVLit64(0, W)), fp64(new(big.Int).Sub(pow2(d-1), big.NewInt(1))), fp64(pow2(d-1)))
			e := -49
			if basicOf(ki.D).Kind() == types.Float32 {
				e = -21
			}
			tol := fpOp("fp.add", "RNE", fp64pow(-(d - 1)), fp64pow(e))
			goal = fpLe(mk("fp.abs", f64, fpOp("fp.sub", "RNE", kxd, fpOp("fp.div", "RNE", a, fs))), tol)
		default:
			return nil, nil
		}
	}
	if isFloatT(ki.S) {
		assume = append(assume, Not(mk("fp.isNaN", SBool, x)))
		if y != nil {
			assume = append(assume, Not(mk("fp.isNaN", SBool, y)))
		}
	}
	return assume, goal
}

// replayFrequency: C17 lemmas are checked natively with exact rational arithmetic.
func (s *Session) replayFrequency(o *Obligation) (bool, map[string]interface{}) {
	if o.Res == nil || o.Res.Model == nil {
		return false, nil
	}
	det := map[string]interface{}{"model": o.Res.Model}
	get := func(n string) (*big.Rat, bool) {
		v, ok := o.Res.Model[n]
		if !ok {
			return nil, false
		}
		if i, ok := parseSMTInt(v); ok {
			return new(big.Rat).SetInt(i), true
		}
		return ratOfLiteral(v)
	}
	f, okf := get("f")
	if !okf {
		return false, det
	}
	ff, _ := f.Float64()
	lemma := strings.TrimPrefix(o.Name, "Frequency/lemma:")
	var sb strings.Builder
	sb.WriteString("package signal\n\nimport (\n\t\"fmt\"\n\t\"math/big\"\n\t\"testing\"\n\t\"time\"\n)\n\nvar _ = time.Second\nvar _ = big.NewRat\n\nfunc TestVerifReplay(t *testing.T) {\n")
	fmt.Fprintf(&sb, "\tf := Frequency(%v)\n\tfr := new(big.Rat).SetFloat64(float64(f))\n\thalf := big.NewRat(1, 2)\n\teps := new(big.Rat).SetFrac(big.NewInt(1), new(big.Int).Lsh(big.NewInt(1), 51))\n\t_, _, _ = fr, half, eps\n", ff)
	num := func(names ...string) (int64, bool) {
		for _, n := range names {
			if r, ok := get(n); ok && r.IsInt() && r.Num().IsInt64() {
				return r.Num().Int64(), true
			}
		}
		return 0, false
	}
	switch lemma {
	case "duration-accuracy":
		n, ok := num("n1")
		if !ok {
			return false, det
		}
		fmt.Fprintf(&sb, "\tn := %d\n\tgot := new(big.Rat).SetInt64(int64(f.Duration(n)))\n\texact := new(big.Rat).Quo(new(big.Rat).SetInt64(int64(n)*1), fr)\n\texact.Mul(exact, big.NewRat(1000000000, 1))\n\tdiff := new(big.Rat).Abs(new(big.Rat).Sub(got, exact))\n\ttol := new(big.Rat).Add(half, new(big.Rat).Mul(eps, exact))\n\tfmt.Println(\"REPLAY-VALUES\", f, n, got, exact.FloatString(3))\n\tif diff.Cmp(tol) > 0 {\n\t\tfmt.Println(\"REPLAY-CONFIRMED: Duration is more than half a nanosecond (plus rounding) away from n/f\")\n\t}\n", n)
	case "events-accuracy":
		d, ok := num("t1")
		if !ok {
			return false, det
		}
		fmt.Fprintf(&sb, "\td := time.Duration(%d)\n\tgot := new(big.Rat).SetInt64(int64(f.Events(d)))\n\texact := new(big.Rat).Mul(fr, new(big.Rat).SetFrac(big.NewInt(int64(d)), big.NewInt(1000000000)))\n\tdiff := new(big.Rat).Abs(new(big.Rat).Sub(got, exact))\n\ttol := new(big.Rat).Add(half, new(big.Rat).Mul(eps, exact))\n\tfmt.Println(\"REPLAY-VALUES\", f, d, got, exact.FloatString(3))\n\tif diff.Cmp(tol) > 0 {\n\t\tfmt.Println(\"REPLAY-CONFIRMED: Events is more than half an event (plus rounding) away from f*d\")\n\t}\n", d)
	case "duration-monotone":
		a, ok1 := num("n1")
		b, ok2 := num("n2")
		if !ok1 || !ok2 {
			return false, det
		}
		fmt.Fprintf(&sb, "\ta, b := %d, %d\n\tfmt.Println(\"REPLAY-VALUES\", f, a, b, f.Duration(a), f.Duration(b))\n\tif a <= b && f.Duration(a) > f.Duration(b) {\n\t\tfmt.Println(\"REPLAY-CONFIRMED: Duration is not monotone\")\n\t}\n", a, b)
	case "events-monotone":
		a, ok1 := num("t1")
		b, ok2 := num("t2")
		if !ok1 || !ok2 {
			return false, det
		}
		fmt.Fprintf(&sb, "\ta, b := time.Duration(%d), time.Duration(%d)\n\tfmt.Println(\"REPLAY-VALUES\", f, a, b, f.Events(a), f.Events(b))\n\tif a <= b && f.Events(a) > f.Events(b) {\n\t\tfmt.Println(\"REPLAY-CONFIRMED: Events is not monotone\")\n\t}\n", a, b)
	case "count-duration-count-roundtrip":
		n, ok := num("n")
		if !ok {
			return false, det
		}
		fmt.Fprintf(&sb, "\tn := %d\n\tback := f.Events(f.Duration(n))\n\tfmt.Println(\"REPLAY-VALUES\", f, n, f.Duration(n), back)\n\tif float64(f) > 0 && float64(f) <= 1e6 && float64(n) <= 86400*float64(f) && back != n {\n\t\tfmt.Println(\"REPLAY-CONFIRMED: count -> duration -> count does not return the count\")\n\t}\n", n)
	default:
		return false, det
	}
	sb.WriteString("}\n")
	src := sb.String()
	det["test_source"] = src
	det["test_name"] = "TestVerifReplay"
	out, _ := runOverlayTest(src, "TestVerifReplay")
	det["test_output"] = truncate(out, 3000)
	return strings.Contains(out, "REPLAY-CONFIRMED"), det
}
