package main

import "math"

func mathF64bits(f float64) uint64 { return math.Float64bits(f) }
func mathF32bits(f float32) uint32 { return math.Float32bits(f) }
