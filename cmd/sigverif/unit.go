package main

import (
	"fmt"
	"go/ast"
	"go/types"
	"math/big"
	"strings"
)

// Unit is the verification of one function at one instantiation.
type Unit struct {
	prog   *Program
	cf     *ContractFile
	fn     *FuncInfo
	ct     *Contract
	inst   *Inst
	ctx    *Ctx
	mode   string // abstract | precise | realfloat
	theory string // axioms | defined
	obls   []*Obligation

	initMem  map[string]*Term
	old      *State
	entry    map[string]Value      // contract binding name -> entry value
	tvars    map[string]types.Type // contract type-parameter name -> concrete type
	roles    map[string]string     // type name -> abstract sort
	bdKnown  map[string]*Term      // buffer id term -> known bit depth constant (from wf in requires)
	exits    []*Exit
	loopOrd  int
	loopVar  map[int]types.Object
	kernels  map[int]*Kernel
	errs     []string
	abstracted []string
	results  []types.Object // named results
	curTsub  map[*types.TypeParam]types.Type
	axiomsOn bool
	inputs   map[string]string

	siteCount  map[string]int
	sitePrefix string
	closures   []*Closure
	rndArgs    []*Term
	rndArgs32  []*Term
	rndHints   []*Term
	calls      map[string]bool
	unbound    []string
	loopsSeen  map[int]bool
	havocked   map[string]bool
	boundN     int
	lets       map[string]Value
	inputSyms  map[string]bool
	poolHit    *Term
	defs       []*Term
	hintsUsed  map[string]bool
	headCounter map[int]int
	loopOrdOf   map[ast.Node]int
	nLoops      int
	opaqueUsed  bool // the function uses state of another package's object (outside the model)
	notes       []string // harmless contract/code mismatches (reported with -v)
	loopPre     map[int]*State
	sawPoolGet  bool
	poolCase    string
	inCallee    bool
	variant     *Clause
	inlineDepth int
}

type Exit struct {
	st      *State
	panic   bool
	note    string
	rets    []Value
	runtime bool // a runtime panic site (index, slice, make, division), not a guard of the contract
}

type Kernel struct {
	Ord     int
	Name    string
	X       *Term // formal parameter
	Body    *Term
	SrcElem types.Type
	DstElem types.Type
	OK      bool
	Why     string
}

func (u *Unit) name() string {
	if u.inst.Name == "" {
		return u.fn.Key
	}
	return u.fn.Key + "[" + u.inst.Name + "]"
}

func (u *Unit) errorf(format string, a ...interface{}) {
	u.errs = append(u.errs, fmt.Sprintf(format, a...))
}

// ---- types -------------------------------------------------------------------

func (u *Unit) conc(t types.Type) types.Type {
	return substType(t, u.curTsub)
}

func substType(t types.Type, m map[*types.TypeParam]types.Type) types.Type {
	switch t := t.(type) {
	case *types.TypeParam:
		if c, ok := m[t]; ok {
			return c
		}
		return t
	case *types.Pointer:
		return types.NewPointer(substType(t.Elem(), m))
	case *types.Slice:
		return types.NewSlice(substType(t.Elem(), m))
	case *types.Named:
		if t.TypeArgs() != nil && t.TypeArgs().Len() > 0 {
			var args []types.Type
			changed := false
			for i := 0; i < t.TypeArgs().Len(); i++ {
				a := t.TypeArgs().At(i)
				b := substType(a, m)
				if a != b {
					changed = true
				}
				args = append(args, b)
			}
			if changed {
				nt, err := types.Instantiate(nil, t.Origin(), args, false)
				if err == nil {
					return nt
				}
			}
		}
		return t
	}
	return t
}

func isTypeParam(t types.Type) bool {
	_, ok := t.(*types.TypeParam)
	return ok
}

func namedName(t types.Type) string {
	if p, ok := t.(*types.Pointer); ok {
		t = p.Elem()
	}
	if n, ok := t.(*types.Named); ok {
		return n.Obj().Name()
	}
	return ""
}

func namedPkg(t types.Type) string {
	if p, ok := t.(*types.Pointer); ok {
		t = p.Elem()
	}
	if n, ok := t.(*types.Named); ok && n.Obj().Pkg() != nil {
		return n.Obj().Pkg().Path()
	}
	return ""
}

// bufElem returns the element type if t is *Buffer[X] or Buffer[X].
func bufElem(t types.Type) (types.Type, bool) {
	if p, ok := t.(*types.Pointer); ok {
		t = p.Elem()
	}
	n, ok := t.(*types.Named)
	if !ok || n.Obj().Name() != "Buffer" || n.TypeArgs() == nil || n.TypeArgs().Len() != 1 {
		return nil, false
	}
	return n.TypeArgs().At(0), true
}

func basicOf(t types.Type) *types.Basic {
	b, _ := t.Underlying().(*types.Basic)
	return b
}

func isFloatT(t types.Type) bool {
	b := basicOf(t)
	return b != nil && b.Info()&types.IsFloat != 0
}
func isIntegerT(t types.Type) bool {
	b := basicOf(t)
	return b != nil && b.Info()&types.IsInteger != 0
}
func isUnsignedT(t types.Type) bool {
	b := basicOf(t)
	return b != nil && b.Info()&types.IsUnsigned != 0
}

func (u *Unit) widthOf(t types.Type) int {
	return int(u.prog.Sizes.Sizeof(t.Underlying())) * 8
}

// isIndexType: Go int and named types over int (channels) are mathematical
// index integers. In realfloat mode every integer type is mathematical.
func (u *Unit) isIndexType(static types.Type) bool {
	if isTypeParam(static) {
		return false
	}
	b := basicOf(static)
	if b == nil {
		return false
	}
	if b.Kind() == types.Int || b.Kind() == types.UntypedInt {
		return true
	}
	if u.mode == "realfloat" && b.Info()&types.IsInteger != 0 {
		return true
	}
	return false
}

// absSort names the uninterpreted sort standing for concrete type t.
func (u *Unit) absSort(t types.Type) string {
	k := typeName(t)
	if s, ok := u.roles[k]; ok {
		return s
	}
	s := fmt.Sprintf("U_E%d", len(u.roles)+1)
	u.roles[k] = s
	return s
}

func fpSort(t types.Type) string {
	if basicOf(t).Kind() == types.Float32 {
		return "(_ FloatingPoint 8 24)"
	}
	return "(_ FloatingPoint 11 53)"
}

// numSort gives the SMT sort of a numeric value of concrete type t whose
// static type is (isParam) a type parameter or not.
func (u *Unit) numSort(t types.Type, isParam bool) string {
	if isFloatT(t) {
		switch u.mode {
		case "precise":
			return fpSort(t)
		case "realfloat":
			return SReal
		}
		return u.absSort(t)
	}
	if isParam && u.mode == "abstract" {
		return u.absSort(t)
	}
	return SBV(u.widthOf(t))
}

// elemSort: sort of heap elements of element type t (always a type-parameter
// position in this package).
func (u *Unit) elemSort(t types.Type) string { return u.numSort(t, true) }

func elemKey(t types.Type) string { return typeName(t) }

// ---- memory components ----------------------------------------------------------

func (u *Unit) comp(st *State, name, sort string) *Term {
	if t, ok := st.mem[name]; ok {
		return t
	}
	if t, ok := u.initMem[name]; ok {
		return t
	}
	t := u.ctx.Const(u.symName(name)+"_0", sort)
	u.initMem[name] = t
	return t
}

// symName: SMT symbol stem for a component; element types are named by role
// (E1, E2, ... in order of first use) so that instantiations with the same
// structure produce byte-identical queries, which are solved once.
func (u *Unit) symName(name string) string {
	if i := strings.IndexByte(name, ':'); i >= 0 {
		return name[:i] + "_" + u.roleOf(name[i+1:])
	}
	return name
}

func (u *Unit) roleOf(key string) string {
	if s, ok := u.roles[key]; ok {
		return s[2:]
	}
	s := fmt.Sprintf("U_E%d", len(u.roles)+1)
	u.roles[key] = s
	return s[2:]
}

func (u *Unit) setComp(st *State, name string, t *Term) { st.mem[name] = t }

func (u *Unit) havoc(st *State, name, sort string) *Term {
	t := u.ctx.Fresh(u.symName(name), sort)
	st.mem[name] = t
	return t
}

var arrII = SArr(SInt, SInt)

func (u *Unit) heap(st *State, elem types.Type) *Term {
	return u.comp(st, "H:"+elemKey(elem), SArr(SInt, u.elemSort(elem)))
}
func (u *Unit) brk(st *State, elem types.Type) *Term { return u.comp(st, "brk:"+elemKey(elem), SInt) }
func (u *Unit) obrk(st *State, elem types.Type) *Term {
	return u.comp(st, "obrk:"+elemKey(elem), SInt)
}
func (u *Unit) fld(st *State, elem types.Type, f string) *Term {
	if f == "bd" {
		return u.comp(st, "bd:"+elemKey(elem), SArr(SInt, SBV8))
	}
	return u.comp(st, f+":"+elemKey(elem), arrII)
}

var hdrFields = []string{"ch", "dptr", "dlen", "dcap", "bd"}

func (u *Unit) bufData(st *State, b Value) Value {
	return Value{K: KSlice, Elem: b.Elem, T: types.NewSlice(b.Elem),
		Ptr: Select(u.fld(st, b.Elem, "dptr"), b.Term),
		Len: Select(u.fld(st, b.Elem, "dlen"), b.Term),
		Cap: Select(u.fld(st, b.Elem, "dcap"), b.Term)}
}

func (u *Unit) bufCh(st *State, b Value) *Term { return Select(u.fld(st, b.Elem, "ch"), b.Term) }
func (u *Unit) bufBD(st *State, b Value) *Term {
	if c, ok := u.bdKnown[b.Term.String()]; ok {
		// the known constant describes the entry state only
		if arr := u.fld(st, b.Elem, "bd"); arr == u.initMem["bd:"+elemKey(b.Elem)] {
			return c
		}
	}
	return Select(u.fld(st, b.Elem, "bd"), b.Term)
}

func (u *Unit) setBufData(st *State, b Value, s Value) {
	for _, fv := range []struct {
		f string
		t *Term
	}{{"dptr", s.Ptr}, {"dlen", s.Len}, {"dcap", s.Cap}} {
		a := u.fld(st, b.Elem, fv.f)
		u.setComp(st, fv.f+":"+elemKey(b.Elem), Store(a, b.Term, fv.t))
	}
}

// ---- values ---------------------------------------------------------------------

const maxSliceLen = int64(1) << 48

func (u *Unit) int64Range(t *Term) *Term {
	return And(Ge(t, IntBig(new(big.Int).Neg(new(big.Int).Lsh(big.NewInt(1), 63)))),
		Lt(t, IntBig(new(big.Int).Lsh(big.NewInt(1), 63))))
}

// freshValue creates a symbolic value of static type `static` and adds the
// type's validity invariants (machine range, slice header validity) to st.
func (u *Unit) freshValue(st *State, static types.Type, name string) Value {
	t := u.conc(static)
	if isTypeParam(static) {
		return Value{K: KNum, T: t, Term: u.ctx.Fresh(name, u.numSort(t, true))}
	}
	if n, ok := t.(*types.Named); ok && n.Obj().Pkg() != nil && n.Obj().Pkg().Path() != u.prog.Pkg.Types.Path() {
		if _, isStruct := n.Underlying().(*types.Struct); isStruct {
			// a struct value of a type from another package (sync/atomic.Pointer, …): opaque state
			return Value{K: KStruct, T: t, Str: "opaque:" + n.Obj().Pkg().Path() + "." + n.Obj().Name(), Fields: map[string]Value{}}
		}
	}
	switch tt := t.(type) {
	case *types.Basic:
		switch {
		case tt.Kind() == types.Bool:
			return Value{K: KBool, T: t, Term: u.ctx.Fresh(name, SBool)}
		case tt.Kind() == types.String:
			return Value{K: KString, T: t, Str: name}
		case u.isIndexType(t):
			v := Value{K: KInt, T: t, Term: u.ctx.Fresh(name, SInt)}
			st.Assume(u.intRangeOf(v.Term, t))
			return v
		case tt.Info()&types.IsNumeric != 0:
			return u.freshNum(st, t, false, name)
		}
	case *types.Named:
		if u.isIndexType(t) {
			v := Value{K: KInt, T: t, Term: u.ctx.Fresh(name, SInt)}
			st.Assume(u.intRangeOf(v.Term, t))
			return v
		}
		if b := basicOf(t); b != nil && b.Info()&types.IsNumeric != 0 {
			return u.freshNum(st, t, false, name)
		}
		if s, ok := t.Underlying().(*types.Struct); ok {
			v := Value{K: KStruct, T: t, Fields: map[string]Value{}}
			for i := 0; i < s.NumFields(); i++ {
				f := s.Field(i)
				v.Fields[f.Name()] = u.freshValue(st, f.Type(), name+"."+f.Name())
			}
			return v
		}
	case *types.Slice:
		if inner, ok := tt.Elem().(*types.Slice); ok {
			// [][]E : headers live in the slice-header heap of E
			_ = inner
			v := Value{K: KSlice, T: t, Elem: tt.Elem(),
				Ptr: u.ctx.Fresh(name+".ptr", SInt), Len: u.ctx.Fresh(name+".len", SInt), Cap: u.ctx.Fresh(name+".cap", SInt)}
			st.Assume(And(Le(IntLit(0), v.Len), Le(v.Len, v.Cap), Le(v.Cap, IntLit(maxSliceLen)), Le(IntLit(0), v.Ptr),
				Le(Add(v.Ptr, v.Cap), u.comp(st, "sbrk:"+elemKey(inner.Elem()), SInt))))
			// every inner header is a valid slice
			q := &Term{Op: "q?" + sanitize(name), Sort: SInt}
			in := u.innerSlice(st, v, q)
			st.Assume(Forall([]*Term{q}, Imp(And(Le(IntLit(0), q), Lt(q, v.Len)), u.validSlice(st, in))))
			return v
		}
		v := Value{K: KSlice, T: t, Elem: tt.Elem(),
			Ptr: u.ctx.Fresh(name+".ptr", SInt), Len: u.ctx.Fresh(name+".len", SInt), Cap: u.ctx.Fresh(name+".cap", SInt)}
		st.Assume(u.validSlice(st, v))
		return v
	case *types.Pointer:
		if e, ok := bufElem(t); ok {
			return Value{K: KBuf, T: t, Elem: e, Term: u.ctx.Fresh(name, SInt)}
		}
		if namedName(t) == "Pool" && namedPkg(t) == "sync" {
			return Value{K: KPool, T: t, Term: u.ctx.Fresh(name, SInt)}
		}
		if _, ok := tt.Elem().Underlying().(*types.Struct); ok {
			// pointer to a struct we treat by value (PoolAllocator: never written after construction)
			v := u.freshValue(st, tt.Elem(), name)
			v.T = t
			return v
		}
	case *types.Interface:
		// an interface value of unknown dynamic type: modelled as wrapping an arbitrary
		// comparable value (enough for equality tests on `any` / comparable parameters)
		inner := Value{K: KInt, T: types.Typ[types.Int], Term: u.ctx.Fresh(name+".dyn", SInt)}
		return Value{K: KIface, T: t, Inner: &inner}
	}
	u.errorf("freshValue: unsupported type %s", t)
	return Value{K: KUnit, T: t}
}

func (u *Unit) intRangeOf(t *Term, typ types.Type) *Term {
	b := basicOf(typ)
	w := u.widthOf(typ)
	if b.Info()&types.IsUnsigned != 0 {
		return And(Ge(t, IntLit(0)), Lt(t, IntBig(new(big.Int).Lsh(big.NewInt(1), uint(w)))))
	}
	return And(Ge(t, IntBig(new(big.Int).Neg(new(big.Int).Lsh(big.NewInt(1), uint(w-1))))),
		Lt(t, IntBig(new(big.Int).Lsh(big.NewInt(1), uint(w-1)))))
}

func (u *Unit) freshNum(st *State, t types.Type, isParam bool, name string) Value {
	if isFloatT(t) && u.mode == "realfloat" {
		// finite by default: callers add special handling through requires
		return Value{K: KNum, T: t, Term: u.ctx.Fresh(name, SReal), Spec: IntLit(0)}
	}
	return Value{K: KNum, T: t, Term: u.ctx.Fresh(name, u.numSort(t, isParam))}
}

func (u *Unit) validSlice(st *State, v Value) *Term {
	inner := v.Elem
	return And(Le(IntLit(0), v.Len), Le(v.Len, v.Cap), Le(v.Cap, IntLit(maxSliceLen)), Le(IntLit(0), v.Ptr),
		Le(Add(v.Ptr, v.Cap), u.brk(st, inner)))
}

// innerSlice reads header c of an outer [][]E slice.
func (u *Unit) innerSlice(st *State, outer Value, c *Term) Value {
	in := outer.Elem.(*types.Slice)
	k := elemKey(in.Elem())
	at := Add(outer.Ptr, c)
	return Value{K: KSlice, T: in, Elem: in.Elem(),
		Ptr: Select(u.comp(st, "SP:"+k, arrII), at),
		Len: Select(u.comp(st, "SL:"+k, arrII), at),
		Cap: Select(u.comp(st, "SC:"+k, arrII), at)}
}

// zero value of an element type.
func (u *Unit) zeroOf(t types.Type, isParam bool) Value {
	return u.constNum(t, isParam, big.NewInt(0), "0")
}

// constNum builds the numeric constant n (integer valued) or textual float f.
func (u *Unit) constNum(t types.Type, isParam bool, n *big.Int, txt string) Value {
	sort := u.numSort(t, isParam)
	switch {
	case strings.HasPrefix(sort, "U_"):
		return Value{K: KNum, T: t, Term: u.ctx.App("lit_"+sort[2:]+"_"+sanitizeNum(txt), sort)}
	case sort == SReal:
		return Value{K: KNum, T: t, Term: realOfText(txt), Spec: IntLit(0)}
	case strings.HasPrefix(sort, "(_ BitVec"):
		return Value{K: KNum, T: t, Term: BVLit(n, u.widthOf(t))}
	default: // FP
		return Value{K: KNum, T: t, Term: fpConst(sort, txt)}
	}
}

func sanitizeNum(s string) string {
	return strings.NewReplacer("-", "m", ".", "p", "+", "", "/", "d").Replace(s)
}

func realOfText(txt string) *Term {
	r, ok := new(big.Rat).SetString(txt)
	if !ok {
		panic("bad real constant " + txt)
	}
	neg := r.Sign() < 0
	if neg {
		r = new(big.Rat).Neg(r)
	}
	var t *Term
	if r.IsInt() {
		t = RealLit(r.Num().String() + ".0")
	} else {
		t = mk("/", SReal, RealLit(r.Num().String()+".0"), RealLit(r.Denom().String()+".0"))
	}
	if neg {
		t = mk("-", SReal, t)
	}
	return t
}

// fpConst converts a decimal/rational constant to the FP sort (RNE).
func fpConst(sort, txt string) *Term {
	r, ok := new(big.Rat).SetString(txt)
	if !ok {
		panic("bad float constant " + txt)
	}
	eb, sb := "11", "53"
	if sort == "(_ FloatingPoint 8 24)" {
		eb, sb = "8", "24"
	}
	neg := r.Sign() < 0
	if neg {
		r = new(big.Rat).Neg(r)
	}
	var rt string
	if r.IsInt() {
		rt = r.Num().String() + ".0"
	} else {
		rt = "(/ " + r.Num().String() + ".0 " + r.Denom().String() + ".0)"
	}
	if neg {
		rt = "(- " + rt + ")"
	}
	return &Term{Op: "((_ to_fp " + eb + " " + sb + ") RNE " + rt + ")", Sort: sort}
}

// constant folding helpers for BV8 literals
func bvLitVal(t *Term) (*big.Int, int, bool) {
	if len(t.Args) != 0 || !strings.HasPrefix(t.Op, "(_ bv") {
		return nil, 0, false
	}
	var v string
	var w int
	if _, err := fmt.Sscanf(t.Op, "(_ bv%s %d)", &v, &w); err != nil {
		return nil, 0, false
	}
	n, ok := new(big.Int).SetString(v, 10)
	return n, w, ok
}

