package main

import (
	"fmt"
	"strconv"
	"strings"
	"unicode"
)

// ---- spec expression AST --------------------------------------------------

type SExpr struct {
	Kind string // id num bin un call field index
	Name string // id name, operator, field name, callee name
	Args []*SExpr
	Pos  int
}

func (e *SExpr) String() string {
	switch e.Kind {
	case "id", "num":
		return e.Name
	case "bin":
		return "(" + e.Args[0].String() + " " + e.Name + " " + e.Args[1].String() + ")"
	case "un":
		return e.Name + e.Args[0].String()
	case "call":
		var as []string
		for _, a := range e.Args {
			as = append(as, a.String())
		}
		return e.Name + "(" + strings.Join(as, ", ") + ")"
	case "field":
		return e.Args[0].String() + "." + e.Name
	case "index":
		return e.Args[0].String() + "[" + e.Args[1].String() + "]"
	}
	return "?"
}

type tok struct {
	k   string // id num op eof
	s   string
	pos int
}

func lexSpec(src string) ([]tok, error) {
	var ts []tok
	i := 0
	for i < len(src) {
		c := src[i]
		switch {
		case c == ' ' || c == '\t' || c == '\n':
			i++
		case unicode.IsLetter(rune(c)) || c == '_' || c == '$':
			j := i + 1
			for j < len(src) && (unicode.IsLetter(rune(src[j])) || unicode.IsDigit(rune(src[j])) || src[j] == '_') {
				j++
			}
			ts = append(ts, tok{"id", src[i:j], i})
			i = j
		case unicode.IsDigit(rune(c)):
			j := i + 1
			for j < len(src) && (unicode.IsDigit(rune(src[j])) || src[j] == '.' || src[j] == 'e' && j+1 < len(src) && unicode.IsDigit(rune(src[j+1]))) {
				j++
			}
			ts = append(ts, tok{"num", src[i:j], i})
			i = j
		default:
			ops := []string{"==>", "<==>", "==", "!=", "<=", ">=", "&&", "||", "<", ">", "+", "-", "*", "/", "%", "!", "(", ")", "[", "]", ",", ".", "^"}
			found := false
			for _, op := range ops {
				if strings.HasPrefix(src[i:], op) {
					ts = append(ts, tok{"op", op, i})
					i += len(op)
					found = true
					break
				}
			}
			if !found {
				return nil, fmt.Errorf("spec: unexpected character %q at %d in %q", c, i, src)
			}
		}
	}
	ts = append(ts, tok{"eof", "", len(src)})
	return ts, nil
}

type specParser struct {
	ts  []tok
	p   int
	src string
}

func parseSpec(src string) (*SExpr, error) {
	ts, err := lexSpec(src)
	if err != nil {
		return nil, err
	}
	sp := &specParser{ts: ts, src: src}
	e, err := sp.imp()
	if err != nil {
		return nil, err
	}
	if sp.peek().k != "eof" {
		return nil, fmt.Errorf("spec: trailing input at %d in %q", sp.peek().pos, src)
	}
	return e, nil
}

func (sp *specParser) peek() tok { return sp.ts[sp.p] }
func (sp *specParser) next() tok { t := sp.ts[sp.p]; sp.p++; return t }
func (sp *specParser) isOp(s string) bool {
	t := sp.peek()
	return t.k == "op" && t.s == s
}

func (sp *specParser) imp() (*SExpr, error) {
	l, err := sp.or()
	if err != nil {
		return nil, err
	}
	if sp.isOp("==>") {
		sp.next()
		r, err := sp.imp()
		if err != nil {
			return nil, err
		}
		return &SExpr{Kind: "bin", Name: "==>", Args: []*SExpr{l, r}}, nil
	}
	if sp.isOp("<==>") {
		sp.next()
		r, err := sp.imp()
		if err != nil {
			return nil, err
		}
		return &SExpr{Kind: "bin", Name: "<==>", Args: []*SExpr{l, r}}, nil
	}
	return l, nil
}

func (sp *specParser) binLevel(ops []string, sub func() (*SExpr, error)) (*SExpr, error) {
	l, err := sub()
	if err != nil {
		return nil, err
	}
	for {
		matched := false
		for _, op := range ops {
			if sp.isOp(op) {
				sp.next()
				r, err := sub()
				if err != nil {
					return nil, err
				}
				l = &SExpr{Kind: "bin", Name: op, Args: []*SExpr{l, r}}
				matched = true
				break
			}
		}
		if !matched {
			return l, nil
		}
	}
}

func (sp *specParser) or() (*SExpr, error)  { return sp.binLevel([]string{"||"}, sp.and) }
func (sp *specParser) and() (*SExpr, error) { return sp.binLevel([]string{"&&"}, sp.cmp) }
func (sp *specParser) cmp() (*SExpr, error) {
	// supports chains a <= b < c as (a <= b) && (b < c)
	l, err := sp.add()
	if err != nil {
		return nil, err
	}
	var res *SExpr
	for {
		var op string
		for _, o := range []string{"==", "!=", "<=", ">=", "<", ">"} {
			if sp.isOp(o) {
				op = o
				break
			}
		}
		if op == "" {
			break
		}
		sp.next()
		r, err := sp.add()
		if err != nil {
			return nil, err
		}
		c := &SExpr{Kind: "bin", Name: op, Args: []*SExpr{l, r}}
		if res == nil {
			res = c
		} else {
			res = &SExpr{Kind: "bin", Name: "&&", Args: []*SExpr{res, c}}
		}
		l = r
	}
	if res == nil {
		return l, nil
	}
	return res, nil
}
func (sp *specParser) add() (*SExpr, error) { return sp.binLevel([]string{"+", "-"}, sp.mul) }
func (sp *specParser) mul() (*SExpr, error) { return sp.binLevel([]string{"*", "/", "%"}, sp.unary) }
func (sp *specParser) unary() (*SExpr, error) {
	if sp.isOp("!") || sp.isOp("-") {
		op := sp.next().s
		x, err := sp.unary()
		if err != nil {
			return nil, err
		}
		return &SExpr{Kind: "un", Name: op, Args: []*SExpr{x}}, nil
	}
	return sp.postfix()
}
func (sp *specParser) postfix() (*SExpr, error) {
	x, err := sp.primary()
	if err != nil {
		return nil, err
	}
	for {
		switch {
		case sp.isOp("."):
			sp.next()
			t := sp.next()
			if t.k != "id" {
				return nil, fmt.Errorf("spec: expected field name at %d in %q", t.pos, sp.src)
			}
			x = &SExpr{Kind: "field", Name: t.s, Args: []*SExpr{x}}
		case sp.isOp("(") && x.Kind == "id":
			sp.next()
			var args []*SExpr
			for !sp.isOp(")") {
				a, err := sp.imp()
				if err != nil {
					return nil, err
				}
				args = append(args, a)
				if sp.isOp(",") {
					sp.next()
				} else if !sp.isOp(")") {
					return nil, fmt.Errorf("spec: expected , or ) at %d in %q", sp.peek().pos, sp.src)
				}
			}
			sp.next()
			x = &SExpr{Kind: "call", Name: x.Name, Args: args}
		case sp.isOp("["):
			sp.next()
			i, err := sp.imp()
			if err != nil {
				return nil, err
			}
			if !sp.isOp("]") {
				return nil, fmt.Errorf("spec: expected ] at %d in %q", sp.peek().pos, sp.src)
			}
			sp.next()
			x = &SExpr{Kind: "index", Args: []*SExpr{x, i}}
		default:
			return x, nil
		}
	}
}
func (sp *specParser) primary() (*SExpr, error) {
	t := sp.next()
	switch t.k {
	case "id":
		return &SExpr{Kind: "id", Name: t.s, Pos: t.pos}, nil
	case "num":
		return &SExpr{Kind: "num", Name: t.s, Pos: t.pos}, nil
	case "op":
		if t.s == "(" {
			e, err := sp.imp()
			if err != nil {
				return nil, err
			}
			if !sp.isOp(")") {
				return nil, fmt.Errorf("spec: expected ) at %d in %q", sp.peek().pos, sp.src)
			}
			sp.next()
			return e, nil
		}
	}
	return nil, fmt.Errorf("spec: unexpected token %q at %d in %q", t.s, t.pos, sp.src)
}

// ---- contract file ------------------------------------------------------------

type Clause struct {
	Kind  string // requires ensures panics-iff invariant decreases
	Label string
	Props []string
	Expr  *SExpr
	Text  string
	Line  int
}

type LoopContract struct {
	Ordinal    int
	Kernel     bool
	Invariants []*Clause
	Decreases  *Clause
	Hints      []*Clause
}

type Contract struct {
	Key      string
	Params   []string // binding names, receiver first
	TNames   []string // type parameter binding names
	Mode     string   // abstract | precise | realfloat
	Theory   string   // axioms | defined
	Props    []string
	Pure     bool
	Trusted  bool
	Insts    []string // restrict instantiations ("int", "named")
	Requires []*Clause
	Ensures  []*Clause
	Panics   *Clause
	Modifies map[string]bool
	Loops    map[int]*LoopContract
	Lets     []*Clause // ghost let: Label = name
	RndHints []*Clause
	Hints    []*Clause
	CallHints []*Clause
	Variants []*Clause
	BaseExcludes []*Clause
	Line     int
}

type LemmaDecl struct {
	Name  string
	Props []string
	Args  []string
	Line  int
}

type ContractFile struct {
	Funcs  map[string]*Contract
	Order  []string
	Lemmas []*LemmaDecl
	Assume []string // lines flagged assume/trusted (assumption scan)
}

func parseContracts(text string) (*ContractFile, error) {
	cf := &ContractFile{Funcs: map[string]*Contract{}}
	var cur *Contract
	var curLoop *LoopContract
	var lastClause *Clause
	finishClause := func() error {
		if lastClause != nil && lastClause.Expr == nil {
			e, err := parseSpec(lastClause.Text)
			if err != nil {
				return fmt.Errorf("line %d: %v", lastClause.Line, err)
			}
			lastClause.Expr = e
		}
		lastClause = nil
		return nil
	}
	lines := strings.Split(text, "\n")
	for ln, raw := range lines {
		line := strings.TrimSpace(raw)
		if !strings.HasPrefix(line, "//@") {
			continue
		}
		body := strings.TrimSpace(line[3:])
		if body == "" {
			continue
		}
		if i := strings.Index(body, " //"); i >= 0 { // trailing comment
			body = strings.TrimSpace(body[:i])
		}
		if strings.HasPrefix(body, "|") {
			if lastClause == nil {
				return nil, fmt.Errorf("line %d: continuation without clause", ln+1)
			}
			lastClause.Text += " " + strings.TrimSpace(body[1:])
			continue
		}
		if err := finishClause(); err != nil {
			return nil, err
		}
		word, rest := splitWord(body)
		label, props := "", []string(nil)
		if i := strings.IndexByte(word, '['); i >= 0 {
			// label attached: kind[label: props]
			j := strings.IndexByte(body, ']')
			if j < 0 {
				return nil, fmt.Errorf("line %d: unterminated label", ln+1)
			}
			lab := body[i+1 : j]
			rest = strings.TrimSpace(body[j+1:])
			word = word[:i]
			if k := strings.IndexByte(lab, ':'); k >= 0 {
				label = strings.TrimSpace(lab[:k])
				props = strings.Fields(lab[k+1:])
			} else {
				label = strings.TrimSpace(lab)
			}
		}
		switch word {
		case "func":
			// func Key[T,U](a, b)
			c := &Contract{Modifies: map[string]bool{}, Loops: map[int]*LoopContract{}, Line: ln + 1, Mode: "abstract", Theory: "opaque"}
			sig := rest
			op := strings.IndexByte(sig, '(')
			if op < 0 {
				return nil, fmt.Errorf("line %d: bad func header", ln+1)
			}
			head := strings.TrimSpace(sig[:op])
			params := strings.TrimSuffix(strings.TrimSpace(sig[op+1:]), ")")
			if i := strings.IndexByte(head, '['); i >= 0 {
				tn := strings.TrimSuffix(head[i+1:], "]")
				for _, t := range strings.Split(tn, ",") {
					c.TNames = append(c.TNames, strings.TrimSpace(t))
				}
				head = head[:i]
			}
			c.Key = head
			for _, p := range strings.Split(params, ",") {
				if p = strings.TrimSpace(p); p != "" {
					c.Params = append(c.Params, p)
				}
			}
			if _, dup := cf.Funcs[c.Key]; dup {
				return nil, fmt.Errorf("line %d: duplicate contract for %s", ln+1, c.Key)
			}
			cf.Funcs[c.Key] = c
			cf.Order = append(cf.Order, c.Key)
			cur = c
			curLoop = nil
		case "lemma":
			f := strings.Fields(rest)
			if len(f) == 0 {
				return nil, fmt.Errorf("line %d: lemma needs a name", ln+1)
			}
			cf.Lemmas = append(cf.Lemmas, &LemmaDecl{Name: f[0], Args: f[1:], Props: props, Line: ln + 1})
			if label != "" {
				cf.Lemmas[len(cf.Lemmas)-1].Props = append([]string{}, props...)
			}
			cur = nil
		case "mode":
			cur.Mode = rest
		case "theory":
			cur.Theory = rest
		case "props":
			cur.Props = strings.Fields(rest)
		case "insts":
			cur.Insts = strings.Fields(rest)
		case "pure":
			cur.Pure = true
		case "trusted":
			cur.Trusted = true
			cf.Assume = append(cf.Assume, fmt.Sprintf("line %d: trusted %s %s", ln+1, cur.Key, rest))
		case "assume":
			cf.Assume = append(cf.Assume, fmt.Sprintf("line %d: assume %s", ln+1, rest))
			return nil, fmt.Errorf("line %d: 'assume' clauses are not allowed in contracts", ln+1)
		case "callhint":
			// callhint <callee> lemma(args): instantiated in the state before each call to <callee>
			w, r := splitWord(rest)
			cl := &Clause{Kind: "callhint", Label: w, Text: r, Line: ln + 1}
			lastClause = cl
			cur.CallHints = append(cur.CallHints, cl)
		case "base-excludes":
			// base-excludes <expr>: inputs outside the quantifier of the general properties
			// (zero channel counts); the base run assumes the negation, the variants cover them
			cl := &Clause{Kind: "base-excludes", Text: rest, Line: ln + 1}
			lastClause = cl
			cur.BaseExcludes = append(cur.BaseExcludes, cl)
		case "variant":
			// variant <prop> <expr>: the function is verified once more under the extra
			// assumption; the safety obligations and the clauses labelled <prop> of that run belong to <prop>
			w, r := splitWord(rest)
			cl := &Clause{Kind: "variant", Label: w, Text: r, Line: ln + 1}
			lastClause = cl
			cur.Variants = append(cur.Variants, cl)
		case "hint":
			cl := &Clause{Kind: "hint", Text: rest, Line: ln + 1}
			lastClause = cl
			if curLoop != nil {
				curLoop.Hints = append(curLoop.Hints, cl)
			} else {
				cur.Hints = append(cur.Hints, cl)
			}
		case "rndhint":
			cl := &Clause{Kind: "rndhint", Text: rest, Line: ln + 1}
			lastClause = cl
			cur.RndHints = append(cur.RndHints, cl)
		case "modifies":
			for _, m := range strings.Fields(strings.ReplaceAll(rest, ",", " ")) {
				cur.Modifies[m] = true
			}
		case "loop":
			f := strings.Fields(rest)
			n, err := strconv.Atoi(f[0])
			if err != nil {
				return nil, fmt.Errorf("line %d: loop ordinal: %v", ln+1, err)
			}
			curLoop = &LoopContract{Ordinal: n}
			for _, x := range f[1:] {
				if x == "kernel" {
					curLoop.Kernel = true
				}
			}
			cur.Loops[n] = curLoop
		case "requires", "ensures", "panics-iff", "invariant", "decreases", "let":
			if cur == nil {
				return nil, fmt.Errorf("line %d: clause outside func", ln+1)
			}
			cl := &Clause{Kind: word, Label: label, Props: props, Text: rest, Line: ln + 1}
			lastClause = cl
			switch word {
			case "requires":
				cur.Requires = append(cur.Requires, cl)
			case "ensures":
				cur.Ensures = append(cur.Ensures, cl)
			case "panics-iff":
				if cur.Panics != nil {
					return nil, fmt.Errorf("line %d: more than one panics-iff", ln+1)
				}
				cur.Panics = cl
			case "let":
				// let name = expr
				eq := strings.Index(rest, "=")
				cl.Label = strings.TrimSpace(rest[:eq])
				cl.Text = strings.TrimSpace(rest[eq+1:])
				cur.Lets = append(cur.Lets, cl)
			case "invariant":
				if curLoop == nil {
					return nil, fmt.Errorf("line %d: invariant outside loop", ln+1)
				}
				curLoop.Invariants = append(curLoop.Invariants, cl)
			case "decreases":
				if curLoop == nil {
					return nil, fmt.Errorf("line %d: decreases outside loop", ln+1)
				}
				curLoop.Decreases = cl
			}
		default:
			return nil, fmt.Errorf("line %d: unknown directive %q", ln+1, word)
		}
	}
	if err := finishClause(); err != nil {
		return nil, err
	}
	return cf, nil
}

func splitWord(s string) (string, string) {
	i := strings.IndexAny(s, " \t")
	if i < 0 {
		return s, ""
	}
	return s[:i], strings.TrimSpace(s[i+1:])
}

func (c *Clause) props(fn *Contract) []string {
	if len(c.Props) > 0 {
		return c.Props
	}
	return fn.Props
}
