package main

import (
	"fmt"
	"go/ast"
	"go/constant"
	"go/token"
	"go/types"
	"math/big"
	"strings"
)

// ---- obligations ------------------------------------------------------------------

func (u *Unit) oblige(st *State, kind, label string, props []string, goal *Term) {
	if isTrue(goal) {
		// trivially true goals are still counted (they were generated and discharged syntactically)
	}
	g := goal
	if len(st.guard) > 0 {
		g = Imp(And(st.guard...), goal)
	}
	noAx := false
	if hasProp(props, "opaque") {
		noAx = true
		var ps []string
		for _, p := range props {
			if p != "opaque" {
				ps = append(ps, p)
			}
		}
		props = ps
	}
	o := &Obligation{
		NoAxioms: noAx,
		Name: u.name() + "/" + label, Kind: kind, Props: props,
		Assume: append([]*Term{}, st.assume...), Goal: g, Ctx: u.ctx,
		Fn: u.fn.Key, InstName: u.inst.Name,
	}
	u.obls = append(u.obls, o)
}

func (u *Unit) fnProps() []string { return u.ct.Props }

func (u *Unit) pos(n ast.Node) string {
	p := u.prog.Fset.Position(n.Pos())
	return fmt.Sprintf("L%d", p.Line)
}

// site label that does not depend on line numbers: ordinal of the site kind in the function.
func (u *Unit) site(kind string) string {
	if u.siteCount == nil {
		u.siteCount = map[string]int{}
	}
	k := kind
	if u.sitePrefix != "" {
		k = u.sitePrefix + "/" + kind
	}
	u.siteCount[k]++
	return fmt.Sprintf("%s#%d", k, u.siteCount[k])
}

// failure registers a runtime panic site with failure condition f.
func (u *Unit) failure(st *State, what string, f *Term) {
	if isFalse(f) {
		return
	}
	label := u.site(what)
	if u.ct.Panics != nil {
		// the function may panic: record the panic exit, checked against panics-iff
		ps := st.clone()
		ps.Assume(f)
		u.exits = append(u.exits, &Exit{st: ps, panic: true, note: label, runtime: true})
	} else {
		u.oblige(st, "no-panic", "no-panic:"+label, u.fnProps(), Not(f))
	}
	st.Assume(Not(f))
}

// ---- expression evaluation ------------------------------------------------------------

func (u *Unit) staticType(e ast.Expr) types.Type {
	if tv, ok := u.prog.Info.Types[e]; ok && tv.Type != nil {
		return tv.Type
	}
	if id, ok := e.(*ast.Ident); ok {
		if o := u.prog.Info.ObjectOf(id); o != nil {
			return o.Type()
		}
	}
	return nil
}

func (u *Unit) constValue(static types.Type, cv constant.Value) Value {
	t := u.conc(static)
	if b, ok := t.Underlying().(*types.Basic); ok {
		switch {
		case b.Info()&types.IsBoolean != 0:
			if constant.BoolVal(cv) {
				return Value{K: KBool, T: t, Term: True}
			}
			return Value{K: KBool, T: t, Term: False}
		case b.Info()&types.IsString != 0:
			return Value{K: KString, T: t, Str: constant.StringVal(cv)}
		case u.isIndexType(static):
			n, _ := new(big.Int).SetString(constant.ToInt(cv).ExactString(), 10)
			if n == nil {
				u.errorf("non-integer index constant %s", cv)
				n = big.NewInt(0)
			}
			return Value{K: KInt, T: t, Term: IntBig(n)}
		case b.Info()&types.IsNumeric != 0:
			txt := cv.ExactString()
			var n *big.Int
			if iv := constant.ToInt(cv); iv.Kind() == constant.Int {
				n, _ = new(big.Int).SetString(iv.ExactString(), 10)
			}
			if n == nil && !isFloatT(t) {
				u.errorf("non-integer constant %s for integer type %s", txt, t)
				n = big.NewInt(0)
			}
			return u.constNum(t, isTypeParam(static), n, txt)
		}
	}
	u.errorf("constValue: unsupported constant type %s", t)
	return Value{K: KUnit}
}

func (u *Unit) eval(st *State, e ast.Expr) Value {
	if tv, ok := u.prog.Info.Types[e]; ok && tv.Value != nil && tv.Type != nil {
		if _, isb := tv.Type.Underlying().(*types.Basic); isb || isTypeParam(tv.Type) {
			return u.constValue(tv.Type, tv.Value)
		}
	}
	switch e := e.(type) {
	case *ast.ParenExpr:
		return u.eval(st, e.X)
	case *ast.Ident:
		switch e.Name {
		case "nil":
			if _, ok := u.prog.Info.Uses[e].(*types.Nil); ok {
				return Value{K: KUnit, Str: "nil"}
			}
		}
		obj := u.prog.Info.ObjectOf(e)
		if v, ok := st.vars[obj]; ok {
			return v
		}
		u.errorf("%s: unbound identifier %s", u.pos(e), e.Name)
		return Value{K: KUnit}
	case *ast.SelectorExpr:
		if sel, ok := u.prog.Info.Selections[e]; ok && sel.Kind() == types.FieldVal {
			base := u.eval(st, e.X)
			return u.fieldPath(st, base, sel.Recv(), sel.Index())
		}
		u.errorf("%s: unsupported selector %s", u.pos(e), e.Sel.Name)
		return Value{K: KUnit}
	case *ast.IndexExpr:
		if id, ok := ast.Unparen(e.X).(*ast.Ident); ok {
			if tbl := u.prog.constTableOf(id); tbl != nil {
				if tbl.why != "" {
					u.errorf("%s: package-level map %s is not a read-only constant table (%s)", u.pos(e), id.Name, tbl.why)
					return Value{K: KUnit}
				}
				key, ok := u.constKey(e.Index)
				if !ok {
					u.errorf("%s: lookup in table %s with a key that is not a constant of the instantiation", u.pos(e), id.Name)
					return Value{K: KUnit}
				}
				for i, k := range tbl.keys {
					if constant.Compare(constant.ToInt(k), token.EQL, constant.ToInt(key)) {
						return u.eval(st, tbl.vals[i])
					}
				}
				return u.zeroValue(st, tbl.valType)
			}
		}
		base := u.eval(st, e.X)
		idx := u.eval(st, e.Index)
		if base.K != KSlice || idx.K != KInt {
			u.errorf("%s: unsupported index expression", u.pos(e))
			return Value{K: KUnit}
		}
		u.failure(st, "index", Or(Lt(idx.Term, IntLit(0)), Ge(idx.Term, base.Len)))
		return u.loadElem(st, base, idx.Term)
	case *ast.SliceExpr:
		base := u.eval(st, e.X)
		if base.K != KSlice {
			u.errorf("%s: unsupported slice expression", u.pos(e))
			return Value{K: KUnit}
		}
		lo, hi := IntLit(0), base.Len
		if e.Low != nil {
			lo = u.eval(st, e.Low).Term
		}
		if e.High != nil {
			hi = u.eval(st, e.High).Term
		}
		if e.Slice3 {
			// s[lo:hi:max]: 0 <= lo <= hi <= max <= cap(s); the result's capacity is max-lo
			if e.High == nil || e.Max == nil {
				u.errorf("%s: malformed full slice expression", u.pos(e))
				return Value{K: KUnit}
			}
			mx := u.eval(st, e.Max).Term
			if lo == nil || hi == nil || mx == nil {
				u.errorf("%s: unsupported slice expression", u.pos(e))
				return Value{K: KUnit}
			}
			u.failure(st, "slice", Or(Lt(lo, IntLit(0)), Gt(lo, hi), Gt(hi, mx), Gt(mx, base.Cap)))
			return Value{K: KSlice, T: base.T, Elem: base.Elem, Ptr: Add(base.Ptr, lo), Len: Sub(hi, lo), Cap: Sub(mx, lo)}
		}
		u.failure(st, "slice", Or(Lt(lo, IntLit(0)), Gt(lo, hi), Gt(hi, base.Cap)))
		return Value{K: KSlice, T: base.T, Elem: base.Elem, Ptr: Add(base.Ptr, lo), Len: Sub(hi, lo), Cap: Sub(base.Cap, lo)}
	case *ast.UnaryExpr:
		switch e.Op {
		case token.AND:
			if cl, ok := e.X.(*ast.CompositeLit); ok {
				return u.compositeLit(st, cl, true)
			}
			if se, ok := e.X.(*ast.SelectorExpr); ok {
				if sel, ok := u.prog.Info.Selections[se]; ok && sel.Kind() == types.FieldVal && se.Sel.Name == "data" {
					base := u.eval(st, se.X)
					if base.K == KBuf {
						return Value{K: KPtrData, T: u.conc(u.staticType(e)), Term: base.Term, Elem: base.Elem}
					}
				}
			}
			u.errorf("%s: unsupported address-of", u.pos(e))
			return Value{K: KUnit}
		case token.NOT:
			x := u.eval(st, e.X)
			return Value{K: KBool, T: x.T, Term: Not(x.Term)}
		case token.SUB:
			x := u.eval(st, e.X)
			if x.K == KInt {
				r := Neg(x.Term)
				u.overflowCheck(st, r, x.T)
				return Value{K: KInt, T: x.T, Term: r}
			}
			return u.numNeg(x, x.T)
		case token.ADD:
			return u.eval(st, e.X)
		case token.XOR:
			x := u.eval(st, e.X)
			if x.K == KNum && x.Term != nil && isBV(x.Term) {
				return Value{K: KNum, T: x.T, Term: mk("bvnot", x.Term.Sort, x.Term)}
			}
			if x.K == KInt {
				// ^x == -x-1 on two's-complement integers
				return Value{K: KInt, T: x.T, Term: Sub(Neg(x.Term), IntLit(1))}
			}
		}
		u.errorf("%s: unsupported unary operator %s", u.pos(e), e.Op)
		return Value{K: KUnit}
	case *ast.BinaryExpr:
		return u.evalBinary(st, e)
	case *ast.CallExpr:
		vs := u.evalCall(st, e)
		if len(vs) == 0 {
			return Value{K: KUnit}
		}
		return vs[0]
	case *ast.CompositeLit:
		return u.compositeLit(st, e, false)
	case *ast.FuncLit:
		// closure: captured variables are read at call time from the defining state
		return Value{K: KClosure, T: u.staticType(e), Str: "closure", Fields: map[string]Value{}, Inner: &Value{K: KUnit}}
	case *ast.TypeAssertExpr:
		x := u.eval(st, e.X)
		want := u.conc(u.staticType(e))
		if x.K == KIface && x.Inner != nil {
			if types.Identical(x.Inner.T, want) {
				return *x.Inner
			}
			u.failure(st, "type-assert", True)
			return *x.Inner
		}
		u.errorf("%s: unsupported type assertion", u.pos(e))
		return Value{K: KUnit}
	}
	u.errorf("%s: unsupported expression %T", u.pos(e), e)
	return Value{K: KUnit}
}

func (u *Unit) loadElem(st *State, s Value, idx *Term) Value {
	if in, ok := s.Elem.(*types.Slice); ok {
		_ = in
		return u.innerSlice(st, s, idx)
	}
	addr := Add(s.Ptr, idx)
	u.noteRead(st, s.Elem, addr)
	v := Value{K: KNum, T: s.Elem, Term: Select(u.heap(st, s.Elem), addr)}
	if v.Term.Sort == SReal {
		v.Spec = IntLit(0)
	}
	return v
}

func (u *Unit) storeElem(st *State, s Value, idx *Term, v Value) {
	addr := Add(s.Ptr, idx)
	h := u.heap(st, s.Elem)
	if h.Sort != SArr(SInt, v.Term.Sort) {
		u.errorf("store: sort mismatch heap %s value %s", h.Sort, v.Term.Sort)
		return
	}
	u.noteWrite(st, s.Elem, addr)
	u.setComp(st, "H:"+elemKey(s.Elem), Store(h, addr, v.Term))
}

// reads/writes logs (for footprint clauses)
// noteRead: read footprint (C19). Every sample read by the function body lies
// inside the readable extent [ptr, ptr+len) of a buffer or slice parameter (as
// of function entry) or in storage the function allocated itself.
func (u *Unit) noteRead(st *State, elem types.Type, addr *Term) {
	if u.old == nil {
		return
	}
	var alts []*Term
	for _, pn := range u.ct.Params {
		v, ok := u.entry[pn]
		if !ok {
			continue
		}
		if v.K == KStruct {
			if b, ok := v.Fields["Buffer"]; ok {
				v = b
			}
		}
		switch v.K {
		case KBuf:
			if types.Identical(v.Elem, elem) {
				d := u.bufData(u.old, v)
				alts = append(alts, And(Le(d.Ptr, addr), Lt(addr, Add(d.Ptr, d.Len))))
			}
		case KSlice:
			if in, ok := v.Elem.(*types.Slice); ok {
				if types.Identical(in.Elem(), elem) {
					c := boundVar("c?" + fmt.Sprint(u.nextBound()))
					is := u.innerSlice(u.old, v, c)
					alts = append(alts, Exists([]*Term{c}, And(Le(IntLit(0), c), Lt(c, v.Len), Le(is.Ptr, addr), Lt(addr, Add(is.Ptr, is.Len)))))
				}
			} else if types.Identical(v.Elem, elem) {
				alts = append(alts, And(Le(v.Ptr, addr), Lt(addr, Add(v.Ptr, v.Len))))
			}
		}
	}
	// storage allocated by the function itself
	alts = append(alts, Ge(addr, u.brk(u.old, elem)))
	u.oblige(st, "reads", "reads:"+u.site("read"), []string{"C19"}, Or(alts...))
}
func (u *Unit) noteWrite(st *State, elem types.Type, addr *Term) {
	u.writeEvent(st, "H:"+elemKey(elem))
	u.writeInFrame(st, elem, addr)
}

// writeInFrame (C19): when the contract states an exact frame sameExcept(x, lo, hi) for
// sample storage, every individual store lies inside one of those frames or in
// storage the function allocated itself. This separates a write into the source
// from a write into the destination when both have the same element type (a
// same-value store is invisible to the value-based frame clause).
func (u *Unit) writeInFrame(st *State, elem types.Type, addr *Term) {
	if u.old == nil || !u.declaredModifies("H:"+elemKey(elem)) {
		return
	}
	var alts []*Term
	skipped := false
	env := u.fnEnv(st)
	var scan func(e *SExpr)
	scan = func(e *SExpr) {
		if e.Kind == "bin" && e.Name == "&&" {
			scan(e.Args[0])
			scan(e.Args[1])
			return
		}
		if e.Kind == "call" && e.Name == "sameExcept" && len(e.Args) == 3 {
			x := u.evalSpec(env, e.Args[0])
			var base *Term
			var xe types.Type
			switch x.K {
			case KBuf:
				base, xe = u.bufData(u.old, x).Ptr, x.Elem
			case KSlice:
				base, xe = x.Ptr, x.Elem
			default:
				return
			}
			if !types.Identical(xe, elem) {
				return
			}
			n0 := len(u.errs)
			lo, hi := u.evalSpec(env, e.Args[1]).Term, u.evalSpec(env, e.Args[2]).Term
			if len(u.errs) > n0 {
				// the frame mentions the result: not evaluable in the middle of the function
				u.errs = u.errs[:n0]
				skipped = true
				return
			}
			alts = append(alts, And(Le(Add(base, lo), addr), Lt(addr, Add(base, hi))))
		}
	}
	nerr := len(u.errs)
	for _, en := range u.ct.Ensures {
		scan(en.Expr)
	}
	u.errs = u.errs[:nerr]
	if len(alts) == 0 || skipped {
		return
	}
	alts = append(alts, Ge(addr, u.brk(u.old, elem)))
	u.oblige(st, "writes", "writes-in-frame:"+u.site("store"), []string{"C19"}, Or(alts...))
}

// writeEvent: the function (or a callee) writes state component comp on this
// path. For race freedom (C19) a write of an unchanged value is still a write,
// so writes to components outside the contract's modifies clause are rejected
// as events, not by comparing values.
// declaresAnyWrite: the contract allows the function to modify sample storage or headers.
func (u *Unit) declaresAnyWrite() bool {
	for m := range u.ct.Modifies {
		if m != "allocs" {
			return true
		}
	}
	return false
}

func (u *Unit) writeEvent(st *State, comp string) {
	if u.old == nil || u.declaredModifies(comp) {
		return
	}
	cls := comp
	if i := strings.IndexByte(comp, ':'); i >= 0 {
		cls = comp[:i]
	}
	u.oblige(st, "writes", "writes:"+cls+":"+u.site("write"), []string{"C19"}, False)
}

// hdrWriteEvent: a store into a header field of buffer object obj. The header clauses of the
// contract are read per object: `modifies hdr(x)` with x a buffer (or a pointer to its data field)
// allows stores into x's header and into headers of objects allocated by this call; `modifies
// newhdr(x)` only the latter (a view or buffer the function creates); `hdr(T)` with a type stays
// class wide. A store into the header of any other object that existed before - the receiver of
// Slice, the source of Append - is a write to shared state, also when it stores the value already
// there (C19: a same-value store is a data race).
func (u *Unit) hdrWriteEvent(st *State, comp string, elem types.Type, obj *Term) {
	if u.old == nil {
		return
	}
	ek := elemKey(elem)
	objs, classWide, any := u.declaredHdrObjects(ek)
	if classWide || !any {
		u.writeEvent(st, comp)
		return
	}
	oldBrk, ok := u.old.mem["obrk:"+ek]
	if !ok {
		oldBrk = u.obrk(u.old, elem)
	}
	alts := []*Term{Ge(obj, oldBrk)}
	for _, o := range objs {
		alts = append(alts, Eq(obj, o))
	}
	u.oblige(st, "writes", "writes:hdr-of-undeclared-object:"+u.site("write"), []string{"C19"}, Or(alts...))
}

// declaredHdrObjects: the objects whose headers the contract allows to be written (hdr(x) with x an
// object), whether some hdr clause is class wide (hdr(T)), and whether any hdr/newhdr clause exists
// for this element type.
func (u *Unit) declaredHdrObjects(ek string) (objs []*Term, classWide, any bool) {
	env := u.fnEnv(u.old)
	for m := range u.ct.Modifies {
		i := indexByte(m, '(')
		if i < 0 {
			continue
		}
		c, arg := m[:i], m[i+1:len(m)-1]
		if c != "hdr" && c != "newhdr" {
			continue
		}
		ae, err := parseSpec(arg)
		if err != nil || elemKey(u.elemOf(env, ae)) != ek {
			continue
		}
		any = true
		if c == "newhdr" {
			continue
		}
		if _, isType := u.specType(env, ae); isType {
			classWide = true
			continue
		}
		v := u.evalSpec(env, ae)
		if (v.K == KBuf || v.K == KPtrData) && v.Term != nil {
			objs = append(objs, v.Term)
		} else {
			classWide = true
		}
	}
	return
}

// fieldPath applies a (possibly promoted) field selection.
func (u *Unit) fieldPath(st *State, base Value, recv types.Type, path []int) Value {
	cur := base
	t := recv
	for _, ix := range path {
		if p, ok := t.(*types.Pointer); ok {
			t = p.Elem()
		}
		s, ok := t.Underlying().(*types.Struct)
		if !ok {
			u.errorf("fieldPath: not a struct %s", t)
			return Value{K: KUnit}
		}
		f := s.Field(ix)
		cur = u.fieldOf(st, cur, f.Name())
		t = f.Type()
	}
	return cur
}

func (u *Unit) fieldOf(st *State, v Value, name string) Value {
	switch v.K {
	case KBuf:
		switch name {
		case "channels":
			return Value{K: KInt, T: u.chanType(), Term: u.bufCh(st, v)}
		case "data":
			return u.bufData(st, v)
		case "bitDepth":
			return Value{K: KNum, T: u.bdType(), Term: u.bufBD(st, v)}
		default:
			// a header field the memory model does not know (added by a change): an
			// unconstrained per-object integer component of the header class
			return Value{K: KInt, T: types.Typ[types.Int], Term: Select(u.comp(st, "xf."+name+":"+elemKey(v.Elem), arrII), v.Term)}
		}
	case KStruct:
		if f, ok := v.Fields[name]; ok {
			return f
		}
	}
	u.errorf("fieldOf: no field %s on value kind %d", name, v.K)
	return Value{K: KUnit}
}

func (u *Unit) chanType() types.Type {
	return u.prog.Pkg.Types.Scope().Lookup("channels").Type()
}
func (u *Unit) bdType() types.Type {
	return u.prog.Pkg.Types.Scope().Lookup("bitDepth").Type()
}

func (u *Unit) overflowCheck(st *State, r *Term, typ types.Type) {
	if _, ok := isIntLit(r); ok {
		return
	}
	if u.mode == "realfloat" {
		// integer arithmetic in float-index functions: still 64-bit
	}
	u.oblige(st, "no-overflow", "no-overflow:"+u.site("arith"), u.fnProps(), u.int64Range(r))
	st.Assume(u.int64Range(r))
}

func (u *Unit) evalBinary(st *State, e *ast.BinaryExpr) Value {
	if e.Op == token.LAND || e.Op == token.LOR {
		x := u.eval(st, e.X)
		g := x.Term
		if e.Op == token.LOR {
			g = Not(x.Term)
		}
		st.guard = append(st.guard, g)
		y := u.eval(st, e.Y)
		st.guard = st.guard[:len(st.guard)-1]
		if e.Op == token.LAND {
			return Value{K: KBool, T: x.T, Term: And(x.Term, y.Term)}
		}
		return Value{K: KBool, T: x.T, Term: Or(x.Term, y.Term)}
	}
	x := u.eval(st, e.X)
	y := u.eval(st, e.Y)
	if e.Op == token.SHL || e.Op == token.SHR {
		if n, ok := isIntLit(y.Term); ok && y.K == KInt && x.K == KNum && x.Term != nil && isBV(x.Term) && n >= 0 {
			// fixed-width value shifted by a constant count
			w := bvWidth(x.Term.Sort)
			if n > int64(w) {
				n = int64(w)
			}
			return u.numShift(e.Op, x, Value{K: KNum, T: types.Typ[types.Uint64], Term: BVLit64(n, w)}, x.T, types.Typ[types.Uint64])
		}
		if x.K == KInt || y.K == KInt {
			u.errorf("%s: shift on index integers not modelled", u.pos(e))
			return x
		}
		return u.numShift(e.Op, x, y, x.T, y.T)
	}
	if x.K == KBool && y.K == KBool {
		switch e.Op {
		case token.EQL:
			return Value{K: KBool, T: x.T, Term: Eq(x.Term, y.Term)}
		case token.NEQ:
			return Value{K: KBool, T: x.T, Term: Ne(x.Term, y.Term)}
		}
	}
	if x.K == KInt && y.K == KInt {
		return u.intBinary(st, e.Op, x, y, e)
	}
	if x.K == KNum && y.K == KNum {
		v, fail := u.numBinary(e.Op, x, y, x.T)
		if fail != nil {
			u.failure(st, "div-by-zero", fail)
		}
		return v
	}
	if x.K == KIface && y.K == KIface && x.Inner != nil && y.Inner != nil && x.Inner.Term != nil && y.Inner.Term != nil && x.Inner.Term.Sort == y.Inner.Term.Sort {
		switch e.Op {
		case token.EQL:
			return Value{K: KBool, Term: Eq(x.Inner.Term, y.Inner.Term)}
		case token.NEQ:
			return Value{K: KBool, Term: Ne(x.Inner.Term, y.Inner.Term)}
		}
	}
	if x.K == KBuf && y.K == KBuf {
		switch e.Op {
		case token.EQL:
			return Value{K: KBool, Term: Eq(x.Term, y.Term)}
		case token.NEQ:
			return Value{K: KBool, Term: Ne(x.Term, y.Term)}
		}
	}
	if (x.K == KBuf && y.Str == "nil") || (y.K == KBuf && x.Str == "nil") {
		b := x
		if y.K == KBuf {
			b = y
		}
		c := Lt(b.Term, IntLit(0))
		if e.Op == token.NEQ {
			c = Not(c)
		}
		return Value{K: KBool, Term: c}
	}
	if x.K == KSlice && y.Str == "nil" {
		c := And(Eq(x.Len, IntLit(0)), Eq(x.Cap, IntLit(0)))
		if e.Op == token.NEQ {
			c = Not(c)
		}
		return Value{K: KBool, Term: c}
	}
	u.errorf("%s: unsupported binary expression %s on kinds %d,%d", u.pos(e), e.Op, x.K, y.K)
	return Value{K: KUnit}
}

func (u *Unit) intBinary(st *State, op token.Token, x, y Value, n ast.Node) Value {
	bt := types.Typ[types.Bool]
	switch op {
	case token.EQL:
		return Value{K: KBool, T: bt, Term: Eq(x.Term, y.Term)}
	case token.NEQ:
		return Value{K: KBool, T: bt, Term: Ne(x.Term, y.Term)}
	case token.LSS:
		return Value{K: KBool, T: bt, Term: Lt(x.Term, y.Term)}
	case token.LEQ:
		return Value{K: KBool, T: bt, Term: Le(x.Term, y.Term)}
	case token.GTR:
		return Value{K: KBool, T: bt, Term: Gt(x.Term, y.Term)}
	case token.GEQ:
		return Value{K: KBool, T: bt, Term: Ge(x.Term, y.Term)}
	}
	var r *Term
	switch op {
	case token.ADD:
		r = Add(x.Term, y.Term)
	case token.SUB:
		r = Sub(x.Term, y.Term)
	case token.MUL:
		r = u.mulInt(x.Term, y.Term)
	case token.QUO:
		u.failure(st, "div-by-zero", Eq(y.Term, IntLit(0)))
		r = TDiv(x.Term, y.Term)
	case token.REM:
		u.failure(st, "div-by-zero", Eq(y.Term, IntLit(0)))
		r = TMod(x.Term, y.Term)
		return Value{K: KInt, T: x.T, Term: r}
	default:
		u.errorf("%s: unsupported int operator %s", u.pos(n), op)
		return x
	}
	u.overflowCheck(st, r, x.T)
	return Value{K: KInt, T: x.T, Term: r}
}

// mulInt: product of two index integers.
func (u *Unit) mulInt(a, b *Term) *Term {
	if u.theory != "defined" {
		_, la := isIntLit(a)
		_, lb := isIntLit(b)
		if !la && !lb {
			// symbolic product: the opaque frame-index function (bi(a,0,b) = a*b)
			return u.specBI(a, IntLit(0), b)
		}
	}
	return Mul(a, b)
}

// ---- composite literals ---------------------------------------------------------------

func (u *Unit) compositeLit(st *State, e *ast.CompositeLit, addr bool) Value {
	t := u.conc(u.staticType(e))
	name := namedName(t)
	fields := map[string]Value{}
	for _, el := range e.Elts {
		kv, ok := el.(*ast.KeyValueExpr)
		if !ok {
			u.errorf("%s: positional composite literal not supported", u.pos(e))
			return Value{K: KUnit}
		}
		k := kv.Key.(*ast.Ident).Name
		if fl, ok := kv.Value.(*ast.FuncLit); ok {
			// remember closure with the defining state snapshot
			snap := st.clone()
			u.closures = append(u.closures, &Closure{Lit: fl, Env: snap})
			fields[k] = Value{K: KClosure, Str: fmt.Sprint(len(u.closures) - 1)}
			u.bumpAllocs(st, 1) // closure capturing variables
			continue
		}
		fields[k] = u.eval(st, kv.Value)
	}
	switch {
	case name == "Buffer" && addr:
		elem, _ := bufElem(t)
		id := u.ctx.Fresh("newbuf", SInt)
		ob := u.obrk(st, elem)
		st.Assume(And(Ge(id, ob), Ge(id, IntLit(0))))
		u.setComp(st, "obrk:"+elemKey(elem), Add(id, IntLit(1)))
		u.bumpAllocs(st, 1)
		b := Value{K: KBuf, T: types.NewPointer(t), Elem: elem, Term: id}
		// fields default to zero values
		ch := IntLit(0)
		if f, ok := fields["channels"]; ok {
			ch = f.Term
		}
		bd := BVLit64(0, 8)
		if f, ok := fields["bitDepth"]; ok {
			bd = f.Term
		}
		data := Value{K: KSlice, Elem: elem, Ptr: IntLit(0), Len: IntLit(0), Cap: IntLit(0)}
		if f, ok := fields["data"]; ok {
			data = f
		}
		u.setComp(st, "ch:"+elemKey(elem), Store(u.fld(st, elem, "ch"), id, ch))
		u.setComp(st, "bd:"+elemKey(elem), Store(u.fld(st, elem, "bd"), id, bd))
		u.setBufData(st, b, data)
		return b
	case name == "Pool" && namedPkg(t) == "sync" && addr:
		id := u.ctx.Fresh("newpool", SInt)
		pb := u.comp(st, "pbrk", SInt)
		st.Assume(And(Ge(id, pb), Ge(id, IntLit(0))))
		u.setComp(st, "pbrk", Add(id, IntLit(1)))
		u.bumpAllocs(st, 1)
		// ghost: empty item set, closure recorded
		items := u.comp(st, "items", SArr(SInt, SArr(SInt, SBool)))
		empty := &Term{Op: "((as const (Array Int Bool)) false)", Sort: SArr(SInt, SBool)}
		u.setComp(st, "items", Store(items, id, empty))
		if nf, ok := fields["New"]; ok && nf.K == KClosure {
			u.setComp(st, "pnew", Store(u.comp(st, "pnew", arrII), id, IntLit(mustAtoi(nf.Str))))
			// captured allocator: record the captured values of free variables of the closure
			cl := u.closures[mustAtoi(nf.Str)]
			u.recordCaptured(st, id, cl)
		}
		return Value{K: KPool, T: types.NewPointer(t), Term: id}
	default:
		if _, ok := t.Underlying().(*types.Struct); ok && !addr {
			s := t.Underlying().(*types.Struct)
			v := Value{K: KStruct, T: t, Fields: map[string]Value{}}
			for i := 0; i < s.NumFields(); i++ {
				f := s.Field(i)
				if fv, ok := fields[f.Name()]; ok {
					v.Fields[f.Name()] = fv
				} else {
					v.Fields[f.Name()] = u.zeroValue(st, f.Type())
				}
			}
			return v
		}
	}
	u.errorf("%s: unsupported composite literal of %s", u.pos(e), t)
	return Value{K: KUnit}
}

func mustAtoi(s string) int64 {
	var n int64
	fmt.Sscan(s, &n)
	return n
}

func (u *Unit) zeroValue(st *State, static types.Type) Value {
	t := u.conc(static)
	if isTypeParam(static) {
		return u.zeroOf(t, true)
	}
	switch tt := t.Underlying().(type) {
	case *types.Basic:
		switch {
		case tt.Kind() == types.Bool:
			return Value{K: KBool, T: t, Term: False}
		case tt.Kind() == types.String:
			return Value{K: KString, T: t}
		case u.isIndexType(t):
			return Value{K: KInt, T: t, Term: IntLit(0)}
		case tt.Info()&types.IsNumeric != 0:
			return u.zeroOf(t, false)
		}
	case *types.Slice:
		return Value{K: KSlice, T: t, Elem: tt.Elem(), Ptr: IntLit(0), Len: IntLit(0), Cap: IntLit(0)}
	case *types.Pointer:
		if e, ok := bufElem(t); ok {
			return Value{K: KBuf, T: t, Elem: e, Term: IntLit(-1)}
		}
		if namedName(t) == "Pool" {
			return Value{K: KPool, T: t, Term: IntLit(-1)}
		}
	case *types.Struct:
		v := Value{K: KStruct, T: t, Fields: map[string]Value{}}
		for i := 0; i < tt.NumFields(); i++ {
			v.Fields[tt.Field(i).Name()] = u.zeroValue(st, tt.Field(i).Type())
		}
		return v
	}
	u.errorf("zeroValue: unsupported type %s", t)
	return Value{K: KUnit}
}

func (u *Unit) bumpAllocs(st *State, n int64) {
	a := u.comp(st, "allocs", SInt)
	u.setComp(st, "allocs", Add(a, IntLit(n)))
}

// ---- assignment -------------------------------------------------------------------------

func (u *Unit) assign(st *State, lhs ast.Expr, v Value, define bool) {
	switch l := lhs.(type) {
	case *ast.Ident:
		if l.Name == "_" {
			return
		}
		obj := u.prog.Info.ObjectOf(l)
		st.vars[obj] = v
	case *ast.ParenExpr:
		u.assign(st, l.X, v, define)
	case *ast.SelectorExpr:
		base := u.eval(st, l.X)
		if base.K == KBuf && l.Sel.Name == "data" && v.K == KSlice {
			u.failure(st, "nil-deref", Lt(base.Term, IntLit(0)))
			u.hdrWriteEvent(st, "dlen:"+elemKey(base.Elem), base.Elem, base.Term)
			u.setBufData(st, base, v)
			return
		}
		if base.K == KBuf && (l.Sel.Name == "channels" || l.Sel.Name == "bitDepth") {
			f := "ch"
			if l.Sel.Name == "bitDepth" {
				f = "bd"
				delete(u.bdKnown, base.Term.String())
			}
			u.hdrWriteEvent(st, f+":"+elemKey(base.Elem), base.Elem, base.Term)
			u.setComp(st, f+":"+elemKey(base.Elem), Store(u.fld(st, base.Elem, f), base.Term, v.Term))
			return
		}
		if base.K == KBuf && v.K == KInt {
			name := "xf." + l.Sel.Name + ":" + elemKey(base.Elem)
			u.hdrWriteEvent(st, "dlen:"+elemKey(base.Elem), base.Elem, base.Term)
			u.setComp(st, name, Store(u.comp(st, name, arrII), base.Term, v.Term))
			return
		}
		u.errorf("%s: unsupported assignment target %s", u.pos(lhs), l.Sel.Name)
	case *ast.IndexExpr:
		base := u.eval(st, l.X)
		idx := u.eval(st, l.Index)
		if base.K != KSlice || idx.K != KInt || v.K != KNum {
			u.errorf("%s: unsupported indexed assignment", u.pos(lhs))
			return
		}
		u.failure(st, "index", Or(Lt(idx.Term, IntLit(0)), Ge(idx.Term, base.Len)))
		u.storeElem(st, base, idx.Term, v)
	default:
		u.errorf("%s: unsupported assignment target %T", u.pos(lhs), lhs)
	}
}

// coerce converts an evaluated constant/untyped value for assignment to static type t.
func (u *Unit) coerce(v Value, static types.Type) Value { return v }

// ---- statements ---------------------------------------------------------------------------

// execBlock executes statements; returns the fall-through states.
func (u *Unit) execBlock(st *State, stmts []ast.Stmt) []*State {
	cur := []*State{st}
	for _, s := range stmts {
		var next []*State
		for _, c := range cur {
			next = append(next, u.execStmt(c, s)...)
		}
		cur = next
		if len(cur) == 0 {
			break
		}
	}
	return cur
}

func (u *Unit) branchCond(st *State, c *Term) {
	st.Assume(c)
	st.branch = append(st.branch, c)
}

func (u *Unit) execStmt(st *State, s ast.Stmt) []*State {
	switch s := s.(type) {
	case *ast.BlockStmt:
		return u.execBlock(st, s.List)
	case *ast.EmptyStmt:
		return []*State{st}
	case *ast.ExprStmt:
		if call, ok := s.X.(*ast.CallExpr); ok {
			if id, ok := call.Fun.(*ast.Ident); ok && id.Name == "panic" {
				if _, isB := u.prog.Info.Uses[id].(*types.Builtin); isB {
					u.exits = append(u.exits, &Exit{st: st, panic: true, note: "panic()"})
					if u.ct.Panics == nil {
						u.oblige(st, "no-panic", "no-panic:"+u.site("panic"), u.fnProps(), False)
					}
					return nil
				}
			}
			u.evalCall(st, call)
			if st.dead {
				return nil
			}
			return []*State{st}
		}
		u.eval(st, s.X)
		return []*State{st}
	case *ast.DeclStmt:
		gd := s.Decl.(*ast.GenDecl)
		if gd.Tok != token.VAR {
			return []*State{st}
		}
		for _, sp := range gd.Specs {
			vs := sp.(*ast.ValueSpec)
			for i, n := range vs.Names {
				obj := u.prog.Info.Defs[n]
				if i < len(vs.Values) {
					st.vars[obj] = u.eval(st, vs.Values[i])
				} else {
					st.vars[obj] = u.zeroValue(st, obj.Type())
				}
			}
		}
		return []*State{st}
	case *ast.IncDecStmt:
		x := u.eval(st, s.X)
		if x.K != KInt {
			u.errorf("%s: ++/-- on non-index value", u.pos(s))
			return []*State{st}
		}
		var r *Term
		if s.Tok == token.INC {
			r = Add(x.Term, IntLit(1))
		} else {
			r = Sub(x.Term, IntLit(1))
		}
		u.overflowCheck(st, r, x.T)
		u.assign(st, s.X, Value{K: KInt, T: x.T, Term: r}, false)
		return []*State{st}
	case *ast.AssignStmt:
		return u.execAssign(st, s)
	case *ast.ReturnStmt:
		var rets []Value
		if len(s.Results) == 0 {
			for _, r := range u.results {
				rets = append(rets, st.vars[r])
			}
		} else if len(s.Results) == 1 && u.fn.Sig.Results().Len() > 1 {
			rets = u.evalCall(st, s.Results[0].(*ast.CallExpr))
		} else {
			for _, r := range s.Results {
				rets = append(rets, u.eval(st, r))
			}
		}
		if st.dead {
			return nil
		}
		u.exits = append(u.exits, &Exit{st: st, rets: rets})
		return nil
	case *ast.IfStmt:
		if s.Init != nil {
			sts := u.execStmt(st, s.Init)
			if len(sts) != 1 {
				u.errorf("%s: if-init forks", u.pos(s))
				return sts
			}
			st = sts[0]
		}
		c := u.eval(st, s.Cond)
		var out []*State
		if !isFalse(c.Term) {
			t := st.clone()
			t.branch = append([]*Term{}, st.branch...)
			u.branchCond(t, c.Term)
			out = append(out, u.execBlock(t, s.Body.List)...)
		}
		if !isTrue(c.Term) {
			f := st.clone()
			f.branch = append([]*Term{}, st.branch...)
			u.branchCond(f, Not(c.Term))
			if s.Else != nil {
				out = append(out, u.execStmt(f, s.Else)...)
			} else {
				out = append(out, f)
			}
		}
		return out
	case *ast.SwitchStmt:
		if s.Init != nil {
			sts := u.execStmt(st, s.Init)
			st = sts[0]
		}
		var tag *Value
		if s.Tag != nil {
			v := u.eval(st, s.Tag)
			tag = &v
		}
		var out []*State
		rest := st
		var def *ast.CaseClause
		for _, cc := range s.Body.List {
			cl := cc.(*ast.CaseClause)
			if cl.List == nil {
				def = cl
				continue
			}
			var conds []*Term
			for _, ce := range cl.List {
				cv := u.eval(rest, ce)
				if tag != nil {
					if tag.K == KInt {
						conds = append(conds, Eq(tag.Term, cv.Term))
					} else {
						b, _ := u.numBinary(token.EQL, *tag, cv, tag.T)
						conds = append(conds, b.Term)
					}
				} else {
					conds = append(conds, cv.Term)
				}
			}
			c := Or(conds...)
			if !isFalse(c) {
				t := rest.clone()
				t.branch = append([]*Term{}, rest.branch...)
				u.branchCond(t, c)
				out = append(out, u.execBlock(t, cl.Body)...)
			}
			if isTrue(c) {
				rest = nil
				break
			}
			nr := rest.clone()
			nr.branch = append([]*Term{}, rest.branch...)
			u.branchCond(nr, Not(c))
			rest = nr
		}
		if rest != nil {
			if def != nil {
				out = append(out, u.execBlock(rest, def.Body)...)
			} else {
				out = append(out, rest)
			}
		}
		return out
	case *ast.TypeSwitchStmt:
		return u.execTypeSwitch(st, s)
	case *ast.ForStmt:
		return u.execLoop(st, s.Init, s.Cond, s.Post, s.Body, nil)
	case *ast.RangeStmt:
		return u.execLoop(st, nil, nil, nil, s.Body, s)
	}
	u.errorf("%s: unsupported statement %T", u.pos(s), s)
	u.abstracted = append(u.abstracted, fmt.Sprintf("%T", s))
	return []*State{st}
}

func (u *Unit) execAssign(st *State, s *ast.AssignStmt) []*State {
	if s.Tok != token.ASSIGN && s.Tok != token.DEFINE {
		// op-assign
		x := u.eval(st, s.Lhs[0])
		y := u.eval(st, s.Rhs[0])
		var op token.Token
		switch s.Tok {
		case token.ADD_ASSIGN:
			op = token.ADD
		case token.SUB_ASSIGN:
			op = token.SUB
		case token.MUL_ASSIGN:
			op = token.MUL
		case token.QUO_ASSIGN:
			op = token.QUO
		case token.REM_ASSIGN:
			op = token.REM
		default:
			u.errorf("%s: unsupported assignment operator %s", u.pos(s), s.Tok)
			return []*State{st}
		}
		var r Value
		if x.K == KInt {
			r = u.intBinary(st, op, x, y, s)
		} else {
			var fail *Term
			r, fail = u.numBinary(op, x, y, x.T)
			if fail != nil {
				u.failure(st, "div-by-zero", fail)
			}
		}
		u.assign(st, s.Lhs[0], r, false)
		return []*State{st}
	}
	if len(s.Lhs) == len(s.Rhs) {
		var vals []Value
		for _, r := range s.Rhs {
			vals = append(vals, u.eval(st, r))
			if st.dead {
				return nil
			}
		}
		for i, l := range s.Lhs {
			u.assign(st, l, vals[i], s.Tok == token.DEFINE)
		}
		return []*State{st}
	}
	if len(s.Rhs) == 1 {
		if call, ok := s.Rhs[0].(*ast.CallExpr); ok {
			vals := u.evalCall(st, call)
			if st.dead {
				return nil
			}
			if len(vals) == len(s.Lhs) {
				for i, l := range s.Lhs {
					u.assign(st, l, vals[i], s.Tok == token.DEFINE)
				}
				return []*State{st}
			}
		}
	}
	if len(s.Rhs) == 1 && len(s.Lhs) == 2 {
		// v, ok := x.(T): never panics; ok reports whether the dynamic type is T
		if ta, ok := ast.Unparen(s.Rhs[0]).(*ast.TypeAssertExpr); ok && ta.Type != nil {
			x := u.eval(st, ta.X)
			wt := u.staticType(ta)
			if tup, ok := wt.(*types.Tuple); ok && tup.Len() == 2 {
				wt = tup.At(0).Type()
			}
			want := u.conc(wt)
			if x.K == KIface && x.Inner != nil {
				if types.Identical(x.Inner.T, want) {
					u.assign(st, s.Lhs[0], *x.Inner, s.Tok == token.DEFINE)
					u.assign(st, s.Lhs[1], Value{K: KBool, T: types.Typ[types.Bool], Term: True}, s.Tok == token.DEFINE)
				} else {
					u.assign(st, s.Lhs[0], u.zeroValue(st, want), s.Tok == token.DEFINE)
					u.assign(st, s.Lhs[1], Value{K: KBool, T: types.Typ[types.Bool], Term: False}, s.Tok == token.DEFINE)
				}
				return []*State{st}
			}
		}
	}
	u.errorf("%s: unsupported assignment form", u.pos(s))
	return []*State{st}
}

// execTypeSwitch resolves `switch any(new(T)).(type)` statically for the
// current instantiation, exactly as the compiler's dictionary would.
func (u *Unit) execTypeSwitch(st *State, s *ast.TypeSwitchStmt) []*State {
	var x ast.Expr
	switch a := s.Assign.(type) {
	case *ast.ExprStmt:
		x = a.X.(*ast.TypeAssertExpr).X
	case *ast.AssignStmt:
		x = a.Rhs[0].(*ast.TypeAssertExpr).X
	}
	// dynamic type of x: conversion to interface of an expression with static type
	dyn := u.dynType(x)
	if dyn == nil {
		u.errorf("%s: type switch subject not understood", u.pos(s))
		return []*State{st}
	}
	var def *ast.CaseClause
	for _, cc := range s.Body.List {
		cl := cc.(*ast.CaseClause)
		if cl.List == nil {
			def = cl
			continue
		}
		for _, te := range cl.List {
			ct := u.conc(u.prog.Info.Types[te].Type)
			if types.Identical(ct, dyn) {
				return u.execBlock(st, cl.Body)
			}
		}
	}
	if def != nil {
		return u.execBlock(st, def.Body)
	}
	return []*State{st}
}

// dynType computes the dynamic type of an interface-valued expression of the
// forms any(e) / interface{}(e).
func (u *Unit) dynType(x ast.Expr) types.Type {
	x = ast.Unparen(x)
	if call, ok := x.(*ast.CallExpr); ok && len(call.Args) == 1 {
		if tv, ok := u.prog.Info.Types[call.Fun]; ok && tv.IsType() {
			if _, isI := tv.Type.Underlying().(*types.Interface); isI {
				return u.conc(u.staticType(call.Args[0]))
			}
		}
	}
	return nil
}

func exprStr(e ast.Expr) string {
	var sb strings.Builder
	ast.Inspect(e, func(n ast.Node) bool {
		if id, ok := n.(*ast.Ident); ok {
			sb.WriteString(id.Name + " ")
		}
		return true
	})
	return sb.String()
}
