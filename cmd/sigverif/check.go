package main

import (
	"sync"
	"encoding/json"
	"fmt"
	"os"
	"path/filepath"
	"sort"
	"strings"
	"time"
)

type propInfo struct {
	ID        string
	Title     string
	Statement string
}

func loadProps() map[string]*propInfo {
	out := map[string]*propInfo{}
	b, err := os.ReadFile("/verif/properties.jsonl")
	if err != nil {
		return out
	}
	for _, l := range strings.Split(string(b), "\n") {
		if strings.TrimSpace(l) == "" {
			continue
		}
		var p struct {
			ID        string `json:"id"`
			Title     string `json:"title"`
			Statement string `json:"statement"`
		}
		if json.Unmarshal([]byte(l), &p) == nil {
			out[p.ID] = &propInfo{p.ID, p.Title, p.Statement}
		}
	}
	return out
}

// known findings -----------------------------------------------------------------------------

type finding struct {
	Prop string
	Glob string
	What string
}

func loadFindings() []finding {
	var out []finding
	b, err := os.ReadFile("/verif/known_findings.txt")
	if err != nil {
		return nil
	}
	for _, l := range strings.Split(string(b), "\n") {
		l = strings.TrimSpace(l)
		if !strings.HasPrefix(l, "finding:") {
			continue
		}
		f := finding{}
		rest := strings.TrimSpace(l[len("finding:"):])
		for _, w := range strings.Fields(rest) {
			if strings.HasPrefix(w, "property=") && f.Prop == "" {
				f.Prop = w[len("property="):]
			} else if strings.HasPrefix(w, "obligation=") && f.Glob == "" {
				f.Glob = w[len("obligation="):]
			}
		}
		if i := strings.Index(rest, "obligation="+f.Glob); i >= 0 {
			f.What = strings.TrimSpace(rest[i+len("obligation="+f.Glob):])
		}
		out = append(out, f)
	}
	return out
}

func globMatch(glob, s string) bool {
	// '*' matches any run of characters
	parts := strings.Split(glob, "*")
	if len(parts) == 1 {
		return glob == s
	}
	if !strings.HasPrefix(s, parts[0]) {
		return false
	}
	s = s[len(parts[0]):]
	for i := 1; i < len(parts)-1; i++ {
		j := strings.Index(s, parts[i])
		if j < 0 {
			return false
		}
		s = s[j+len(parts[i]):]
	}
	return strings.HasSuffix(s, parts[len(parts)-1])
}

// unexportedKey: the function (and, for a method, its name) is not part of the package API.
func unexportedKey(key string) bool {
	name := key
	if i := strings.LastIndex(key, "."); i >= 0 {
		name = key[i+1:]
	}
	return name != "" && name[0] >= 'a' && name[0] <= 'z'
}

// ---- check ------------------------------------------------------------------------------------

func cmdCheck(prop, tier string) (rc int) {
	defer func() {
		// last line of defence: the machinery failing on a tree is "undecided", reported as such,
		// never a silent non-zero exit without a VIOLATION line
		if r := recover(); r != nil {
			os.MkdirAll("/verif/replays", 0o755)
			path := fmt.Sprintf("/verif/replays/%s-generator_crash.json", prop)
			js, _ := json.MarshalIndent(map[string]interface{}{"property": prop, "obligation": "generator/crash",
				"confirmed_on_real_code": false, "note": fmt.Sprintf("the verifier crashed on this tree: %v", r)}, "", " ")
			os.WriteFile(path, js, 0o644)
			fmt.Printf("VIOLATION property=%s replay=%s obligation=generator/crash no-failing-input-found\n", prop, path)
			rc = 1
		}
	}()
	t0 := time.Now()
	initWork()
	defer func() {
		if !*flagKeep {
			cleanupWork()
		}
	}()
	s, err := newSession()
	if err != nil {
		fmt.Fprintln(os.Stderr, "error:", err)
		return 2
	}
	props := loadProps()
	if _, ok := props[prop]; !ok {
		fmt.Fprintf(os.Stderr, "unknown property %s\n", prop)
		return 2
	}
	variantFilter = prop
	var obls []*Obligation
	funcs := map[string]bool{}
	insts := 0
	var units []*Unit
	for _, key := range s.cf.Order {
		ct := s.cf.Funcs[key]
		if !contractServes(ct, prop) {
			continue
		}
		if s.prog.Funcs[key] == nil && unexportedKey(key) {
			// an unexported helper that no longer exists (inlined, renamed, replaced by a builtin):
			// its contract is unused; callers are verified against whatever they call now
			fmt.Fprintf(os.Stderr, "note: contract of unexported %s is unused (no such function)\n", key)
			continue
		}
		if s.prog.Funcs[key] == nil {
			obls = append(obls, &Obligation{Name: key + "/contract-binds", Kind: "contract-binds", Props: []string{prop}, Goal: False, Ctx: NewCtx(), Fn: key,
				Note: "the contract file names function " + key + " which does not exist in the package"})
			continue
		}
		if ct.Trusted {
			continue
		}
		os_, us := s.runFunc(key, "")
		funcs[key] = true
		insts += len(us)
		units = append(units, us...)
		for _, o := range os_ {
			if hasProp(o.Props, prop) {
				obls = append(obls, o)
			}
		}
	}
	// property-specific lemma obligations
	lem, bounded, lemAssume := lemmaObligations(s, prop, tier)
	obls = append(obls, lem...)
	// package-wide structural obligations
	obls = append(obls, structuralObligations(s, prop)...)
	obls = filterObls(obls)
	solveAll(obls, tier)

	// classify
	findings := loadFindings()
	var failed []*Obligation
	known := map[string][]string{}
	byBackend := map[string]int{}
	byKind := map[string]int{}
	solverTime := 0.0
	distinct := map[string]bool{}
	discharged := 0
	machineryErr := false
	nBounded := 0
	nSoft := 0
	var softUndecided []string
	for _, o := range obls {
		if o.Bounded {
			nBounded++
		}
		byKind[o.Kind]++
		if o.Res != nil {
			if o.Txt == "" || !distinct[hashText(o.Txt)] {
				solverTime += o.Res.TimeS
			}
			if o.Res.Cross != "" {
				machineryErr = true
				fmt.Printf("MACHINERY-ERROR: solver disagreement on %s: %s\n", o.Name, o.Res.Cross)
			}
		}
		if o.Txt != "" {
			distinct[hashText(o.Txt)] = true
		}
		if o.ok() {
			if !o.Bounded {
				discharged++
			}
			byBackend[o.Res.Backend]++
			continue
		}
		if o.Soft && o.Res != nil && o.Res.Status != "sat" {
			softUndecided = append(softUndecided, o.Name+": "+o.Res.Status)
			nSoft++
			continue
		}
		matched := false
		for _, f := range findings {
			if f.Prop == prop && globMatch(f.Glob, o.Name) {
				known[f.Glob+" "+f.What] = append(known[f.Glob+" "+f.What], o.Name)
				matched = true
				break
			}
		}
		if !matched {
			failed = append(failed, o)
		}
	}
	if *flagVerbose {
		seenT := map[string]bool{}
		var slow []*Obligation
		for _, o := range obls {
			if o.Res != nil && o.Txt != "" && !seenT[hashText(o.Txt)] {
				seenT[hashText(o.Txt)] = true
				slow = append(slow, o)
			}
		}
		sort.Slice(slow, func(i, j int) bool { return slow[i].Res.TimeS > slow[j].Res.TimeS })
		for i := 0; i < len(slow) && i < 25; i++ {
			fmt.Printf("SLOW %.2fs %-12s %-14s %s\n", slow[i].Res.TimeS, slow[i].Tier, slow[i].Res.Backend, slow[i].Name)
		}
	}
	sort.Slice(failed, func(i, j int) bool { return failed[i].Name < failed[j].Name })
	for k, v := range known {
		fmt.Printf("KNOWN-FINDING: property=%s %s (%d obligations, e.g. %s)\n", prop, k, len(v), v[0])
	}
	// generator errors are machinery errors unless a refutation replays
	if len(s.errs) > 0 {
		for _, e := range s.errs {
			fmt.Println("GENERATOR-ERROR:", e)
		}
	}
	// report violations: one replay file per failed obligation group (same function+label)
	nviol := 0
	if len(failed) > 0 {
		os.MkdirAll("/verif/replays", 0o755)
		groups := map[string][]*Obligation{}
		var order []string
		for _, o := range failed {
			g := o.Fn + "/" + labelOf(o.Name)
			if _, ok := groups[g]; !ok {
				order = append(order, g)
			}
			groups[g] = append(groups[g], o)
		}
		// replays run in parallel (each builds and runs an injected test)
		type rres struct {
			path      string
			confirmed bool
		}
		results := make([]rres, len(order))
		var wg sync.WaitGroup
		sem := make(chan struct{}, 8)
		for i, g := range order {
			i, g := i, g
			wg.Add(1)
			sem <- struct{}{}
			go func() {
				defer wg.Done()
				defer func() { <-sem }()
				defer func() {
					// a failed obligation is reported even if its replay cannot be produced
					if r := recover(); r != nil {
						os.MkdirAll("/verif/replays", 0o755)
						path := fmt.Sprintf("/verif/replays/%s-%s.json", prop, sanitize(groups[g][0].Name))
						js, _ := json.MarshalIndent(map[string]interface{}{"property": prop, "obligation": groups[g][0].Name,
							"confirmed_on_real_code": false, "note": fmt.Sprintf("replay generation failed: %v", r)}, "", " ")
						os.WriteFile(path, js, 0o644)
						results[i] = rres{path, false}
					}
				}()
				p, c := writeReplay(s, prop, groups[g], i < 12)
				results[i] = rres{p, c}
			}()
		}
		wg.Wait()
		for i, g := range order {
			os_ := groups[g]
			path, confirmed := results[i].path, results[i].confirmed
			nviol++
			suffix := ""
			if !confirmed {
				suffix = " no-failing-input-found"
			}
			fmt.Printf("VIOLATION property=%s replay=%s obligation=%s status=%s instantiations=%d%s\n", prop, path, os_[0].Name, os_[0].Res.Status, len(os_), suffix)
		}
	}
	// evidence
	var fnames []string
	for k := range funcs {
		fnames = append(fnames, k)
	}
	sort.Strings(fnames)
	var samples []interface{}
	seen := map[string]bool{}
	for _, o := range obls {
		k := o.Kind + ":" + o.Fn
		if seen[k] || len(samples) >= 12 {
			continue
		}
		seen[k] = true
		goal := ""
		if o.Goal != nil {
			goal = o.Goal.String()
			if len(goal) > 400 {
				goal = goal[:400] + "..."
			}
		}
		st := ""
		be := ""
		if o.Res != nil {
			st, be = o.Res.Status, o.Res.Backend
		}
		samples = append(samples, map[string]interface{}{"obligation": o.Name, "kind": o.Kind, "goal": goal, "status": st, "backend": be})
	}
	nKnown := 0
	boundedNames := map[string]bool{}
	for _, o := range obls {
		if o.Bounded {
			boundedNames[o.Name] = true
		}
	}
	for _, v := range known {
		for _, n := range v {
			if !boundedNames[n] {
				nKnown++
			}
		}
	}
	var knownList []string
	for k, v := range known {
		knownList = append(knownList, fmt.Sprintf("%s (%d obligations)", k, len(v)))
	}
	sort.Strings(knownList)
	var undischarged []string
	for _, o := range failed {
		undischarged = append(undischarged, o.Name+": "+o.Res.Status)
	}
	absList := map[string]bool{}
	for _, u := range units {
		for _, a := range u.abstracted {
			absList[u.fn.Key+": "+a] = true
		}
	}
	trusted := trustedBase(prop)
	// lemmas decided in the exact scaled-integer model: what was enumerated, status, back end, time
	var exactModel []map[string]interface{}
	for _, o := range obls {
		if o.Kind == "lemma" && strings.HasSuffix(o.Name, "-exact") && o.Res != nil {
			exactModel = append(exactModel, map[string]interface{}{"obligation": o.Name, "enumeration": o.Note, "status": o.Res.Status, "backend": o.Res.Backend, "time_s": o.Res.TimeS})
		}
	}
	ev := &Evidence{PropertyID: prop, Tier: tier, Seed: seed(), Level: "proof", WallS: time.Since(t0).Seconds(), Violations: nviol,
		Assumptions: append(trusted, lemAssume...),
		Coverage: map[string]interface{}{
			"obligations":              len(obls) - nBounded - nKnown - nSoft,
			"thorough_extra_undecided":  softUndecided,
			"known_finding_obligations": nKnown,
			"bounded_checks":           nBounded,
			"discharged":               discharged,
			"checker_cmd":              fmt.Sprintf("/verif/bin/sigverif check %s --tier %s", prop, tier),
			"trusted_base":             trusted,
			"functions_under_contract": fnames,
			"instantiations":           insts,
			"distinct_smt_queries":     len(distinct),
			"by_backend":               byBackend,
			"by_kind":                  byKind,
			"solver_time_s":            solverTime,
			"samples":                  samples,
			"known_findings":           knownList,
			"undischarged":             undischarged,
			"bounded":                  bounded,
			"abstracted":               sortedSet(absList),
			"exact_model_lemmas":       exactModel,
			"generator_errors":         s.errs,
			"integer_semantics":        "index integers: mathematical Int with a no-overflow obligation at every + - *; sample/fixed-width integers: SMT bit-vectors of the Go width; floats: IEEE-754 FloatingPoint theory in kernels, standard model over reals in Length/ChannelLength/Frequency",
		}}
	writeEvidence(prop, ev)
	fmt.Printf("%s: %d obligations, %d discharged, %d known-finding, %d violations, %d functions, %d instantiations, %.1fs wall, %.1fs solver\n",
		prop, len(obls)-nBounded-nKnown-nSoft, discharged, nKnown, nviol, len(funcs), insts, time.Since(t0).Seconds(), solverTime)
	if machineryErr || (len(s.errs) > 0 && nviol == 0) {
		if len(s.errs) > 0 {
			// a generator error on code we cannot model: report as violation without input
			os.MkdirAll("/verif/replays", 0o755)
			path := filepath.Join("/verif/replays", prop+"-generator-error.json")
			b, _ := json.MarshalIndent(map[string]interface{}{"property": prop, "obligation": "generator/supported-subset", "errors": s.errs,
				"note": "the code under contract uses a construct outside the modelled subset or a contract no longer binds; the property is undecided on this tree"}, "", " ")
			os.WriteFile(path, b, 0o644)
			fmt.Printf("VIOLATION property=%s replay=%s obligation=generator/supported-subset no-failing-input-found\n", prop, path)
			return 1
		}
		return 2
	}
	if nviol > 0 {
		return 1
	}
	return 0
}

func labelOf(name string) string {
	if i := strings.Index(name, "/"); i >= 0 {
		return name[i+1:]
	}
	return name
}

func trustedBase(prop string) []string {
	tb := []string{
		"VC generator (this tool): symbolic execution semantics of the Go subset used by the package, flat typed-heap memory model (fresh allocations never overlap live storage)",
		"SMT solvers z3 5.1.0 / z3 4.8.12 / cvc5 1.0.3",
		"index integers are 64-bit (gc/amd64); slices have at most 2^48 elements",
		"builtin append: growth capacity unspecified (any cap' >= len'), new block fresh, copied prefix, zero tail; make zero-fills",
	}
	switch prop {
	case "C03", "C12", "C20":
		tb = append(tb, "reflect.ValueOf(p).Elem().SetCap(n): panics unless len <= n <= cap, then sets the capacity only (assumed contract)")
	case "C10", "C11":
		tb = append(tb, "sync.Pool: Get returns an item previously Put (at most once) or New(); Put adds the item (assumed contract); items of the pool are only added by PoolAllocator.Put")
	}
	switch prop {
	case "C08", "C09", "C01", "C05":
		tb = append(tb, "float->integer conversion modelled as gc/amd64 implements it (CVTTSD2SQ/CVTTSD2SL integer-indefinite), implementation-defined in the Go spec")
	}
	switch prop {
	case "C08", "C09":
		tb = append(tb, "order and accuracy lemmas of the float conversions: standard model of IEEE-754 rounding (every correctly rounded operation is rnd(exact), rnd constrained by relative error 2^-p, monotonicity, exactness on integers up to 2^p); clipping, zero, injectivity and the non-positive round trip in the FloatingPoint theory")
	}
	if prop == "C09" {
		tb = append(tb, "exact scaled-integer model of the extracted kernels (exactfp.go: binades, signs and comparisons enumerated by the tool, one QF_LIA query): the enumeration is trusted like the VC generator; guarded by cover obligations, cross-checked by the FloatingPoint-theory lemma at 8 bit and by exhaustive native execution of the real code at 16 and 32 bit")
	}
	switch prop {
	case "C17", "C01", "C02", "C04", "C05", "C13", "C14", "C20":
		tb = append(tb, "float64 arithmetic in Length/ChannelLength/Frequency: standard model (correctly rounded results: relative error 2^-53, monotone rounding, integers up to 2^53 exact); math.Ceil/math.Round by their mathematical definitions")
	}
	switch prop {
	case "C11", "C19":
		tb = append(tb, "schedules are not explored: the deductive step proves write/read footprints; race freedom follows by the DRF argument of DESIGN.md (not machine-checked)")
	case "C18":
		tb = append(tb, "allocation effect system: heap allocations happen only at make, growing append, &T{}, closures and value-to-interface conversions (gc escape analysis assumed not to add others)")
	}
	return tb
}

// structuralObligations: package-level facts (no package-level variables, ...).
func structuralObligations(s *Session, prop string) []*Obligation {
	var out []*Obligation
	if prop == "C11" || prop == "C19" {
		goal := True
		note := ""
		if len(s.prog.Globals) > 0 {
			goal = False
			note = "package-level variables: " + strings.Join(s.prog.Globals, ", ")
		}
		out = append(out, &Obligation{Name: "package/no-globals", Kind: "structure", Props: []string{prop}, Goal: goal, Ctx: NewCtx(), Fn: "package", Note: note})
	}
	if prop == "C11" {
		out = append(out, immutableFieldObligation(s, prop))
	}
	// every function of the package is under contract
	var missing []string
	for _, k := range s.prog.funcKeys() {
		if _, ok := s.cf.Funcs[k]; !ok {
			missing = append(missing, k)
		}
	}
	_ = missing
	return out
}
