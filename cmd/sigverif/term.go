package main

import (
	"fmt"
	"math/big"
	"sort"
	"strings"
)

// Term is an SMT-LIB term. Leaves have no Args; Decl marks a declared constant
// (to be emitted as declare-fun). Fun marks an application of a declared
// (uninterpreted or defined) function whose signature is in the FunReg.
type Term struct {
	Op    string
	Args  []*Term
	Sort  string
	Decl  bool    // leaf: declared constant
	Bound []*Term // quantifier-bound variables (Op == forall/exists)
	Pats  [][]*Term
}

const (
	SInt  = "Int"
	SBool = "Bool"
	SReal = "Real"
	SBV8  = "(_ BitVec 8)"
)

func SBV(n int) string       { return fmt.Sprintf("(_ BitVec %d)", n) }
func SArr(a, b string) string { return "(Array " + a + " " + b + ")" }

var (
	True  = &Term{Op: "true", Sort: SBool}
	False = &Term{Op: "false", Sort: SBool}
)

func (t *Term) String() string {
	var sb strings.Builder
	t.write(&sb)
	return sb.String()
}

func (t *Term) write(sb *strings.Builder) {
	if t == nil {
		// a term the generator could not build (it has reported a generator error): an undeclared
		// symbol, so that a query containing it is an error for every back end, never a proof
		sb.WriteString("|malformed-term|")
		return
	}
	if t.Op == "forall" || t.Op == "exists" {
		sb.WriteString("(" + t.Op + " (")
		for i, b := range t.Bound {
			if i > 0 {
				sb.WriteByte(' ')
			}
			sb.WriteString("(" + b.Op + " " + b.Sort + ")")
		}
		sb.WriteString(") ")
		if len(t.Pats) > 0 {
			sb.WriteString("(! ")
		}
		t.Args[0].write(sb)
		for _, p := range t.Pats {
			sb.WriteString(" :pattern (")
			for i, q := range p {
				if i > 0 {
					sb.WriteByte(' ')
				}
				q.write(sb)
			}
			sb.WriteString(")")
		}
		if len(t.Pats) > 0 {
			sb.WriteString(")")
		}
		sb.WriteString(")")
		return
	}
	if len(t.Args) == 0 {
		sb.WriteString(t.Op)
		return
	}
	sb.WriteByte('(')
	sb.WriteString(t.Op)
	for _, a := range t.Args {
		sb.WriteByte(' ')
		a.write(sb)
	}
	sb.WriteByte(')')
}

func mk(op, sort string, args ...*Term) *Term { return &Term{Op: op, Args: args, Sort: sort} }

func IntLit(n int64) *Term {
	if n < 0 {
		return mk("-", SInt, &Term{Op: fmt.Sprint(-n), Sort: SInt})
	}
	return &Term{Op: fmt.Sprint(n), Sort: SInt}
}

func IntBig(n *big.Int) *Term {
	if n.Sign() < 0 {
		return mk("-", SInt, &Term{Op: new(big.Int).Neg(n).String(), Sort: SInt})
	}
	return &Term{Op: n.String(), Sort: SInt}
}

func RealLit(s string) *Term { return &Term{Op: s, Sort: SReal} }

// BVLit builds a bit-vector literal of width w from (possibly negative) n.
func BVLit(n *big.Int, w int) *Term {
	m := new(big.Int).Lsh(big.NewInt(1), uint(w))
	v := new(big.Int).Mod(n, m)
	return &Term{Op: fmt.Sprintf("(_ bv%s %d)", v.String(), w), Sort: SBV(w)}
}

func BVLit64(n int64, w int) *Term { return BVLit(big.NewInt(n), w) }

func isTrue(t *Term) bool  { return t.Op == "true" && len(t.Args) == 0 }
func isFalse(t *Term) bool { return t.Op == "false" && len(t.Args) == 0 }

func And(ts ...*Term) *Term {
	var out []*Term
	for _, t := range ts {
		if t == nil || isTrue(t) {
			continue
		}
		if isFalse(t) {
			return False
		}
		if t.Op == "and" {
			out = append(out, t.Args...)
		} else {
			out = append(out, t)
		}
	}
	if len(out) == 0 {
		return True
	}
	if len(out) == 1 {
		return out[0]
	}
	return mk("and", SBool, out...)
}

func Or(ts ...*Term) *Term {
	var out []*Term
	for _, t := range ts {
		if t == nil || isFalse(t) {
			continue
		}
		if isTrue(t) {
			return True
		}
		out = append(out, t)
	}
	if len(out) == 0 {
		return False
	}
	if len(out) == 1 {
		return out[0]
	}
	return mk("or", SBool, out...)
}

func Not(t *Term) *Term {
	if isTrue(t) {
		return False
	}
	if isFalse(t) {
		return True
	}
	if t.Op == "not" {
		return t.Args[0]
	}
	return mk("not", SBool, t)
}

func Imp(a, b *Term) *Term {
	if isTrue(a) {
		return b
	}
	if isFalse(a) || isTrue(b) {
		return True
	}
	return mk("=>", SBool, a, b)
}

func Eq(a, b *Term) *Term {
	if a == b || (len(a.Args) == 0 && len(b.Args) == 0 && a.Op == b.Op && a.Sort == b.Sort) {
		return True
	}
	if a.Sort != b.Sort {
		panic(fmt.Sprintf("Eq: sort mismatch %s : %s vs %s : %s", a, a.Sort, b, b.Sort))
	}
	return mk("=", SBool, a, b)
}
func Ne(a, b *Term) *Term { return Not(Eq(a, b)) }

func Ite(c, a, b *Term) *Term {
	if isTrue(c) {
		return a
	}
	if isFalse(c) {
		return b
	}
	if a.Sort != b.Sort {
		panic(fmt.Sprintf("Ite: sort mismatch %s vs %s", a.Sort, b.Sort))
	}
	return mk("ite", a.Sort, c, a, b)
}

func isIntLit(t *Term) (int64, bool) {
	if t.Sort != SInt {
		return 0, false
	}
	if len(t.Args) == 0 {
		var n int64
		if _, err := fmt.Sscanf(t.Op, "%d", &n); err == nil && fmt.Sprint(n) == t.Op {
			return n, true
		}
		return 0, false
	}
	if t.Op == "-" && len(t.Args) == 1 {
		if n, ok := isIntLit(t.Args[0]); ok {
			return -n, true
		}
	}
	return 0, false
}

func Add(a, b *Term) *Term {
	if n, ok := isIntLit(a); ok && n == 0 {
		return b
	}
	if n, ok := isIntLit(b); ok && n == 0 {
		return a
	}
	if x, ok := isIntLit(a); ok {
		if y, ok := isIntLit(b); ok && abs64(x) < 1<<40 && abs64(y) < 1<<40 {
			return IntLit(x + y)
		}
	}
	return mk("+", a.Sort, a, b)
}
func Sub(a, b *Term) *Term {
	if n, ok := isIntLit(b); ok && n == 0 {
		return a
	}
	if x, ok := isIntLit(a); ok {
		if y, ok := isIntLit(b); ok && abs64(x) < 1<<40 && abs64(y) < 1<<40 {
			return IntLit(x - y)
		}
	}
	return mk("-", a.Sort, a, b)
}
func Mul(a, b *Term) *Term {
	if n, ok := isIntLit(a); ok && n == 1 {
		return b
	}
	if n, ok := isIntLit(b); ok && n == 1 {
		return a
	}
	return mk("*", a.Sort, a, b)
}
func Neg(a *Term) *Term { return mk("-", a.Sort, a) }
func Le(a, b *Term) *Term { return mk("<=", SBool, a, b) }
func Lt(a, b *Term) *Term { return mk("<", SBool, a, b) }
func Ge(a, b *Term) *Term { return mk(">=", SBool, a, b) }
func Gt(a, b *Term) *Term { return mk(">", SBool, a, b) }

func abs64(x int64) int64 {
	if x < 0 {
		return -x
	}
	return x
}

func Select(a, i *Term) *Term {
	// (Array I E)
	s := a.Sort
	if !strings.HasPrefix(s, "(Array ") {
		panic("Select on non-array " + s)
	}
	return mk("select", arrElem(s), a, i)
}
func Store(a, i, v *Term) *Term { return mk("store", a.Sort, a, i, v) }

// arrElem returns the element sort of "(Array I E)".
func arrElem(s string) string {
	inner := s[len("(Array ") : len(s)-1]
	// split index sort (first sexp) from element sort
	depth := 0
	for k := 0; k < len(inner); k++ {
		switch inner[k] {
		case '(':
			depth++
		case ')':
			depth--
		case ' ':
			if depth == 0 {
				return inner[k+1:]
			}
		}
	}
	panic("bad array sort " + s)
}

func Forall(vars []*Term, body *Term, pats ...[]*Term) *Term {
	if isTrue(body) {
		return True
	}
	return &Term{Op: "forall", Args: []*Term{body}, Sort: SBool, Bound: vars, Pats: pats}
}
func Exists(vars []*Term, body *Term) *Term {
	return &Term{Op: "exists", Args: []*Term{body}, Sort: SBool, Bound: vars}
}

// Go truncated integer division and remainder over mathematical Int (b != 0).
func TDiv(a, b *Term) *Term {
	return Ite(Ge(a, IntLit(0)),
		Ite(Gt(b, IntLit(0)), mk("div", SInt, a, b), Neg(mk("div", SInt, a, Neg(b)))),
		Ite(Gt(b, IntLit(0)), Neg(mk("div", SInt, Neg(a), b)), mk("div", SInt, Neg(a), Neg(b))))
}
func TMod(a, b *Term) *Term { return Sub(a, Mul(b, TDiv(a, b))) }

// ---- symbol generation / function registry ------------------------------

type FunSig struct {
	Name string
	Args []string
	Res  string
	// Def, when non-nil, makes this a define-fun with parameters Params.
	Params []*Term
	Def    *Term
}

// Ctx holds the symbol tables of one verification unit (one function
// instantiation, or one lemma).
type Ctx struct {
	n     int
	Funs  map[string]*FunSig
	Sorts map[string]bool // uninterpreted sorts
}

func NewCtx() *Ctx { return &Ctx{Funs: map[string]*FunSig{}, Sorts: map[string]bool{}} }

func (c *Ctx) Fresh(name, sort string) *Term {
	c.n++
	c.noteSort(sort)
	return &Term{Op: fmt.Sprintf("%s!%d", sanitize(name), c.n), Sort: sort, Decl: true}
}

// Const returns a declared constant with a stable name.
func (c *Ctx) Const(name, sort string) *Term {
	c.noteSort(sort)
	return &Term{Op: sanitize(name), Sort: sort, Decl: true}
}

func (c *Ctx) noteSort(s string) {
	// uninterpreted sorts are those starting with "U_" anywhere in the sort expr
	for _, f := range strings.FieldsFunc(s, func(r rune) bool { return r == '(' || r == ')' || r == ' ' }) {
		if strings.HasPrefix(f, "U_") {
			c.Sorts[f] = true
		}
	}
}

func sanitize(s string) string {
	r := strings.NewReplacer("[", "_", "]", "_", "*", "p", " ", "_", ",", "_", "(", "_", ")", "_", "/", "_")
	return r.Replace(s)
}

// App applies a declared function, registering its signature on first use.
func (c *Ctx) App(name string, res string, args ...*Term) *Term {
	name = sanitize(name)
	sig, ok := c.Funs[name]
	if !ok {
		sig = &FunSig{Name: name, Res: res}
		for _, a := range args {
			sig.Args = append(sig.Args, a.Sort)
			c.noteSort(a.Sort)
		}
		c.noteSort(res)
		c.Funs[name] = sig
	} else {
		if len(sig.Args) != len(args) {
			panic("arity mismatch for " + name)
		}
		for i, a := range args {
			if sig.Args[i] != a.Sort {
				panic(fmt.Sprintf("sort mismatch for %s arg %d: %s vs %s", name, i, sig.Args[i], a.Sort))
			}
		}
	}
	if len(args) == 0 {
		return &Term{Op: name, Sort: res, Decl: true}
	}
	return &Term{Op: name, Args: args, Sort: res}
}

// Define registers a defined function (define-fun).
func (c *Ctx) Define(name, res string, params []*Term, def *Term) {
	name = sanitize(name)
	sig := &FunSig{Name: name, Res: res, Params: params, Def: def}
	for _, p := range params {
		sig.Args = append(sig.Args, p.Sort)
	}
	c.Funs[name] = sig
}

// Subst replaces every occurrence of the term whose printed form equals key.
func Subst(t *Term, m map[string]*Term) *Term {
	if len(m) == 0 {
		return t
	}
	return subst(t, m)
}

func subst(t *Term, m map[string]*Term) *Term {
	if r, ok := m[t.String()]; ok {
		return r
	}
	if len(t.Args) == 0 {
		return t
	}
	changed := false
	args := make([]*Term, len(t.Args))
	for i, a := range t.Args {
		args[i] = subst(a, m)
		if args[i] != a {
			changed = true
		}
	}
	if !changed {
		return t
	}
	n := *t
	n.Args = args
	if len(t.Pats) > 0 {
		n.Pats = nil
		for _, p := range t.Pats {
			var q []*Term
			for _, x := range p {
				q = append(q, subst(x, m))
			}
			n.Pats = append(n.Pats, q)
		}
	}
	return &n
}

// collect gathers declared constants and function symbols used by terms.
func collect(ts []*Term, consts map[string]string, funs map[string]bool, ctx *Ctx) {
	var walk func(t *Term, bound map[string]bool)
	walk = func(t *Term, bound map[string]bool) {
		if t == nil {
			return
		}
		if len(t.Bound) > 0 {
			nb := map[string]bool{}
			for k := range bound {
				nb[k] = true
			}
			for _, b := range t.Bound {
				nb[b.Op] = true
			}
			bound = nb
		}
		if len(t.Args) == 0 {
			if t.Decl && !bound[t.Op] {
				if _, isFun := ctx.Funs[t.Op]; isFun {
					funs[t.Op] = true
				} else {
					consts[t.Op] = t.Sort
				}
			}
			return
		}
		if sig, ok := ctx.Funs[t.Op]; ok {
			if !funs[t.Op] {
				funs[t.Op] = true
				if sig.Def != nil {
					walk(sig.Def, paramSet(sig.Params))
				}
			}
		}
		for _, a := range t.Args {
			walk(a, bound)
		}
		for _, p := range t.Pats {
			for _, q := range p {
				walk(q, bound)
			}
		}
	}
	for _, t := range ts {
		walk(t, map[string]bool{})
	}
}

func paramSet(ps []*Term) map[string]bool {
	m := map[string]bool{}
	for _, p := range ps {
		m[p.Op] = true
	}
	return m
}

// Script renders a complete SMT-LIB query: assumptions, negated goal.
// If goal is nil the script asks for satisfiability of the assumptions (cover).
func Script(ctx *Ctx, logic string, assumptions []*Term, goal *Term, wantModel bool) string {
	var sb strings.Builder
	if wantModel {
		sb.WriteString("(set-option :produce-models true)\n")
	}
	if logic != "" {
		sb.WriteString("(set-logic " + logic + ")\n")
	}
	consts := map[string]string{}
	funs := map[string]bool{}
	all := append([]*Term{}, assumptions...)
	if goal != nil {
		all = append(all, goal)
	}
	collect(all, consts, funs, ctx)
	// sorts
	sorts := map[string]bool{}
	note := func(s string) {
		for _, f := range strings.FieldsFunc(s, func(r rune) bool { return r == '(' || r == ')' || r == ' ' }) {
			if strings.HasPrefix(f, "U_") {
				sorts[f] = true
			}
		}
	}
	for _, s := range consts {
		note(s)
	}
	for f := range funs {
		sig := ctx.Funs[f]
		note(sig.Res)
		for _, a := range sig.Args {
			note(a)
		}
	}
	// bound variable sorts
	var walkB func(t *Term)
	walkB = func(t *Term) {
		for _, b := range t.Bound {
			note(b.Sort)
		}
		for _, a := range t.Args {
			walkB(a)
		}
	}
	for _, t := range all {
		walkB(t)
	}
	for _, s := range sortedKeysB(sorts) {
		sb.WriteString("(declare-sort " + s + " 0)\n")
	}
	for _, k := range sortedKeysS(consts) {
		sb.WriteString("(declare-fun " + k + " () " + consts[k] + ")\n")
	}
	// functions: declared first, then defined in dependency order (definitions
	// may only use declared functions or earlier definitions; we emit declared
	// ones first and defined ones sorted by registration depth).
	var declared, defined []string
	for f := range funs {
		if ctx.Funs[f].Def != nil {
			defined = append(defined, f)
		} else {
			declared = append(declared, f)
		}
	}
	sort.Strings(declared)
	for _, f := range declared {
		sig := ctx.Funs[f]
		sb.WriteString("(declare-fun " + f + " (" + strings.Join(sig.Args, " ") + ") " + sig.Res + ")\n")
	}
	// topological order of defined functions
	emitted := map[string]bool{}
	var emit func(f string)
	emit = func(f string) {
		if emitted[f] {
			return
		}
		emitted[f] = true
		sig := ctx.Funs[f]
		deps := map[string]bool{}
		collect([]*Term{sig.Def}, map[string]string{}, deps, ctx)
		var ds []string
		for d := range deps {
			if ctx.Funs[d].Def != nil && d != f {
				ds = append(ds, d)
			}
		}
		sort.Strings(ds)
		for _, d := range ds {
			emit(d)
		}
		var ps []string
		for _, p := range sig.Params {
			ps = append(ps, "("+p.Op+" "+p.Sort+")")
		}
		sb.WriteString("(define-fun " + f + " (" + strings.Join(ps, " ") + ") " + sig.Res + " " + sig.Def.String() + ")\n")
	}
	sort.Strings(defined)
	for _, f := range defined {
		emit(f)
	}
	for _, a := range assumptions {
		if isTrue(a) {
			continue
		}
		sb.WriteString("(assert " + a.String() + ")\n")
	}
	if goal != nil {
		sb.WriteString("(assert (not " + goal.String() + "))\n")
	}
	sb.WriteString("(check-sat)\n")
	if wantModel {
		sb.WriteString("(get-model)\n")
	}
	return sb.String()
}

func sortedKeysS(m map[string]string) []string {
	var ks []string
	for k := range m {
		ks = append(ks, k)
	}
	sort.Strings(ks)
	return ks
}
func sortedKeysB(m map[string]bool) []string {
	var ks []string
	for k := range m {
		ks = append(ks, k)
	}
	sort.Strings(ks)
	return ks
}
