package main

import (
	"encoding/json"
	"fmt"
	"go/types"
	"math/big"
	"os"
	"os/exec"
	"path/filepath"
	"sort"
	"strings"
)

// Runtime assertion checking of a contract on one concrete run of the real
// function: the pre-state is the one the replay test constructed from the
// solver's model, the post-state is what the test dumped after calling the
// real code. Both become ground SMT states; every ensures clause (and the
// panics-iff clause) is evaluated by the same spec evaluator the verifier
// uses (precise mode, arithmetic definitions) and decided by the solver.

type racBuf struct {
	Nil   bool     `json:"nil"`
	Ch    int64    `json:"ch"`
	Where string   `json:"where"`
	Off   int64    `json:"off"`
	Len   int64    `json:"len"`
	Cap   int64    `json:"cap"`
	BD    int64    `json:"bd"`
	Ext   []string `json:"ext"`
}

func sampleTerm(u *Unit, t types.Type, s string) *Term {
	if strings.HasPrefix(s, "f") {
		var bits uint64
		fmt.Sscanf(s[1:], "%x", &bits)
		return fpFromBits(bits, 4*len(s[1:]))
	}
	n, _ := new(big.Int).SetString(s, 10)
	if n == nil {
		n = big.NewInt(0)
	}
	return BVLit(n, u.widthOf(t))
}

func constArray(sort string, def *Term) *Term {
	return &Term{Op: "((as const " + sort + ") " + def.String() + ")", Sort: sort}
}

// racCheck evaluates the contract clauses relevant to prop on the dumped run.
// Returns the labels of violated clauses.
func (s *Session) racCheck(prop string, u0 *Unit, o *Obligation, mv map[string]string, memSizes map[string]int64, out string) ([]string, string) {
	var stateLine string
	for _, l := range strings.Split(out, "\n") {
		if strings.HasPrefix(l, "REPLAY-STATE ") {
			stateLine = strings.TrimPrefix(l, "REPLAY-STATE ")
		}
	}
	if stateLine == "" {
		return nil, "the replay test did not report a post-state"
	}
	var raw map[string]json.RawMessage
	if err := json.Unmarshal([]byte(stateLine), &raw); err != nil {
		return nil, "bad post-state: " + err.Error()
	}
	fi, ct := u0.fn, u0.ct
	u := newUnit(s.prog, s.cf, fi, ct, u0.inst, "precise")
	u.theory = "defined"
	u.tvars = u0.tvars
	old := &State{vars: map[types.Object]Value{}, mem: map[string]*Term{}}
	cur := &State{vars: map[types.Object]Value{}, mem: map[string]*Term{}}
	u.old = old
	panicked := false
	json.Unmarshal(raw["panicked"], &panicked)

	// element heaps: pre-state pattern i%100+1, post-state from the dump
	type extBlock struct {
		elem types.Type
		base int64
		data []string
	}
	extBase := map[string]int64{}
	elemOfName := map[string]types.Type{}
	for _, pn := range ct.Params {
		v := u0.entry[pn]
		switch v.K {
		case KBuf:
			elemOfName[goTypeName(v.Elem)] = v.Elem
		case KSlice:
			e := v.Elem
			if in, ok := e.(*types.Slice); ok {
				e = in.Elem()
			}
			elemOfName[goTypeName(e)] = e
		case KStruct:
			if b, ok := v.Fields["Buffer"]; ok {
				elemOfName[goTypeName(b.Elem)] = b.Elem
			}
		}
	}
	if fi.Sig.Results().Len() > 0 {
		if e, ok := bufElem(u0.conc(fi.Sig.Results().At(0).Type())); ok {
			elemOfName[goTypeName(e)] = e
		}
	}
	var names []string
	for n := range elemOfName {
		names = append(names, n)
	}
	sort.Strings(names)
	postMem := map[string][]string{}
	for _, n := range names {
		var m []string
		json.Unmarshal(raw["mem_"+n], &m)
		postMem[n] = m
		extBase[n] = int64(len(m))
	}
	// headers
	hdrOld := map[string]map[string]map[int64]*Term{} // elem -> field -> id -> value
	hdrCur := map[string]map[string]map[int64]*Term{}
	setHdr := func(h map[string]map[string]map[int64]*Term, elem string, id int64, ch, ptr, ln, cp, bd int64) {
		if h[elem] == nil {
			h[elem] = map[string]map[int64]*Term{}
		}
		for f, v := range map[string]*Term{"ch": IntLit(ch), "dptr": IntLit(ptr), "dlen": IntLit(ln), "dcap": IntLit(cp), "bd": BVLit64(bd, 8)} {
			if h[elem][f] == nil {
				h[elem][f] = map[int64]*Term{}
			}
			h[elem][f][id] = v
		}
	}
	var exts []extBlock
	placeDump := func(elem types.Type, d racBuf) (ptr int64) {
		n := goTypeName(elem)
		if d.Where == "mem" {
			return d.Off
		}
		base := extBase[n]
		extBase[n] += int64(len(d.Ext))
		exts = append(exts, extBlock{elem, base, d.Ext})
		return base
	}
	nextID := map[string]int64{}
	var outerHdr [][5]interface{} // (element key, position, ptr, len, cap) of per-channel slice headers
	var bindRec func(pn string, v Value) Value
	bind := func(pn string, v Value) Value {
		switch v.K {
		case KBuf:
			n := goTypeName(v.Elem)
			id, _ := mvInt(mv, pn+".id")
			ch, _ := mvInt(mv, pn+".ch")
			p, _ := mvInt(mv, pn+".ptr")
			l, _ := mvInt(mv, pn+".len")
			c, _ := mvInt(mv, pn+".cap")
			setHdr(hdrOld, n, id, ch, p, l, c, int64(u.widthOf(v.Elem)))
			var d racBuf
			goName := "p_" + sanitize(pn)
			if strings.HasSuffix(pn, ".Buffer") {
				goName = "p_" + sanitize(strings.TrimSuffix(pn, ".Buffer")) + ".Buffer"
			}
			if err := json.Unmarshal(raw[goName], &d); err == nil {
				pp := placeDump(v.Elem, d)
				if d.Cap == 0 && d.Where == "mem" {
					// Go does not advance the data pointer of a zero-capacity slice (s[i:i:i] keeps the
					// base), so its position is unobservable: keep the model's
					pp = p
				}
				setHdr(hdrCur, n, id, d.Ch, pp, d.Len, d.Cap, d.BD)
			}
			if id+1 > nextID[n] {
				nextID[n] = id + 1
			}
			return Value{K: KBuf, T: v.T, Elem: v.Elem, Term: IntLit(id)}
		case KSlice:
			if in, ok := v.Elem.(*types.Slice); ok {
				// [][]T: the outer header from the model, the per-channel headers (unchanged by the
				// call) as ground header heaps
				op, _ := mvInt(mv, pn+".ptr")
				ol, _ := mvInt(mv, pn+".len")
				oc, ok3 := mvInt(mv, pn+".cap")
				if !ok3 || oc < ol {
					oc = ol
				}
				k := elemKey(in.Elem())
				for c := int64(0); c < ol && c < 8; c++ {
					ip, _ := mvInt(mv, fmt.Sprintf("%s[%d].ptr", pn, c))
					il, _ := mvInt(mv, fmt.Sprintf("%s[%d].len", pn, c))
					ic, _ := mvInt(mv, fmt.Sprintf("%s[%d].cap", pn, c))
					outerHdr = append(outerHdr, [5]interface{}{k, op + c, ip, il, ic})
				}
				return Value{K: KSlice, T: v.T, Elem: v.Elem, Ptr: IntLit(op), Len: IntLit(ol), Cap: IntLit(oc)}
			}
			p, _ := mvInt(mv, pn+".ptr")
			l, _ := mvInt(mv, pn+".len")
			c, _ := mvInt(mv, pn+".cap")
			return Value{K: KSlice, T: v.T, Elem: v.Elem, Ptr: IntLit(p), Len: IntLit(l), Cap: IntLit(c)}
		case KInt:
			n, _ := parseSMTInt(mv[pn])
			if n == nil {
				n = big.NewInt(0)
			}
			return Value{K: KInt, T: v.T, Term: IntBig(n)}
		case KNum:
			if bits, w, ok := fpBits(mv[pn]); ok {
				return Value{K: KNum, T: v.T, Term: fpFromBits(bits, w)}
			}
			if n, w, ok := parseSMTBV(mv[pn]); ok {
				return Value{K: KNum, T: v.T, Term: BVLit(n, w)}
			}
			return Value{K: KNum, T: v.T, Term: u.constNum(v.T, true, big.NewInt(7), "7").Term}
		case KStruct:
			nv := Value{K: KStruct, T: v.T, Fields: map[string]Value{}}
			for k, f := range v.Fields {
				nv.Fields[k] = bindRec(pn+"."+k, f)
			}
			return nv
		}
		return v
	}
	bindRec = bind
	hasOuter := false
	for _, pn := range ct.Params {
		v := u0.entry[pn]
		if v.K == KSlice {
			if _, ok := v.Elem.(*types.Slice); ok {
				hasOuter = true
			}
		}
		if v.K == KStruct {
			nv := Value{K: KStruct, T: v.T, Fields: map[string]Value{}}
			for k, f := range v.Fields {
				nv.Fields[k] = bind(pn+"."+k, f)
			}
			u.entry[pn] = nv
			continue
		}
		u.entry[pn] = bind(pn, v)
	}
	if hasOuter {
		sp, sl, sc := map[string]*Term{}, map[string]*Term{}, map[string]*Term{}
		for _, h := range outerHdr {
			k := h[0].(string)
			if sp[k] == nil {
				sp[k], sl[k], sc[k] = constArray(arrII, IntLit(0)), constArray(arrII, IntLit(0)), constArray(arrII, IntLit(0))
			}
			at := IntLit(h[1].(int64))
			sp[k] = Store(sp[k], at, IntLit(h[2].(int64)))
			sl[k] = Store(sl[k], at, IntLit(h[3].(int64)))
			sc[k] = Store(sc[k], at, IntLit(h[4].(int64)))
		}
		for k := range sp {
			for _, st := range []*State{old, cur} {
				st.mem["SP:"+k], st.mem["SL:"+k], st.mem["SC:"+k] = sp[k], sl[k], sc[k]
			}
		}
	}
	// result
	var result *Value
	if fi.Sig.Results().Len() == 1 && !panicked {
		rt := u0.conc(fi.Sig.Results().At(0).Type())
		if e, ok := bufElem(rt); ok {
			var d racBuf
			if err := json.Unmarshal(raw["result"], &d); err == nil && !d.Nil {
				n := goTypeName(e)
				id := nextID[n]
				nextID[n]++
				setHdr(hdrCur, n, id, d.Ch, placeDump(e, d), d.Len, d.Cap, d.BD)
				result = &Value{K: KBuf, T: rt, Elem: e, Term: IntLit(id)}
				// obrk: old = id, cur = id+1
				old.mem["obrk:"+elemKey(e)] = IntLit(id)
				cur.mem["obrk:"+elemKey(e)] = IntLit(id + 1)
			}
		} else if u.isIndexType(rt) {
			var rs string
			json.Unmarshal(raw["result"], &rs)
			if n, ok := new(big.Int).SetString(rs, 10); ok {
				result = &Value{K: KInt, T: rt, Term: IntBig(n)}
			}
		} else if isIntegerT(rt) {
			// fixed-width integer result (BitDepth, int64, uint64, sample types)
			var rs string
			json.Unmarshal(raw["result"], &rs)
			if n, ok := new(big.Int).SetString(rs, 10); ok {
				result = &Value{K: KNum, T: rt, Term: BVLit(n, u.widthOf(rt))}
			}
		}
	}
	// build component terms
	for _, n := range names {
		e := elemOfName[n]
		sort_ := SArr(SInt, u.elemSort(e))
		zero := u.zeroOf(e, true).Term
		pre := constArray(sort_, zero)
		size := memSizes[n]
		for i := int64(0); i < size; i++ {
			pre = Store(pre, IntLit(i), u.constNum(e, true, big.NewInt(i%100+1), fmt.Sprint(i%100+1)).Term)
		}
		post := constArray(sort_, zero)
		for i, sv := range postMem[n] {
			post = Store(post, IntLit(int64(i)), sampleTerm(u, e, sv))
		}
		for _, x := range exts {
			if goTypeName(x.elem) == n {
				for i, sv := range x.data {
					post = Store(post, IntLit(x.base+int64(i)), sampleTerm(u, e, sv))
				}
			}
		}
		old.mem["H:"+elemKey(e)] = pre
		cur.mem["H:"+elemKey(e)] = post
		old.mem["brk:"+elemKey(e)] = IntLit(size)
		cur.mem["brk:"+elemKey(e)] = IntLit(extBase[n])
		if _, ok := old.mem["obrk:"+elemKey(e)]; !ok {
			old.mem["obrk:"+elemKey(e)] = IntLit(nextID[n])
			cur.mem["obrk:"+elemKey(e)] = IntLit(nextID[n])
		}
		for _, f := range hdrFields {
			mkArr := func(h map[string]map[string]map[int64]*Term) *Term {
				var a *Term
				if f == "bd" {
					a = constArray(SArr(SInt, SBV8), BVLit64(0, 8))
				} else {
					a = constArray(arrII, IntLit(0))
				}
				var ids []int64
				for id := range h[n][f] {
					ids = append(ids, id)
				}
				sort.Slice(ids, func(i, j int) bool { return ids[i] < ids[j] })
				for _, id := range ids {
					a = Store(a, IntLit(id), h[n][f][id])
				}
				return a
			}
			old.mem[f+":"+elemKey(e)] = mkArr(hdrOld)
			// objects not dumped keep their old header
			merged := map[string]map[string]map[int64]*Term{n: {f: {}}}
			for id, v := range hdrOld[n][f] {
				merged[n][f][id] = v
			}
			for id, v := range hdrCur[n][f] {
				merged[n][f][id] = v
			}
			cur.mem[f+":"+elemKey(e)] = mkArr(merged)
		}
	}
	old.mem["allocs"] = IntLit(0)
	cur.mem["allocs"] = IntLit(0)
	// kernels
	kernelOK := false
	if ki := s.preciseKernel(fi.Key, u0.inst); ki != nil && ki.OK {
		kernelOK = true
		for ord, lc := range ct.Loops {
			if lc.Kernel {
				k := &Kernel{Ord: ord, Name: fmt.Sprintf("K%d", ord), SrcElem: ki.S, DstElem: ki.D, OK: true, X: ki.X, Body: ki.Body}
				u.kernels[ord] = k
				u.ctx.Define(k.Name, u.elemSort(ki.D), []*Term{ki.X}, ki.Body)
				cur.kord = ord
			}
		}
	}
	env := u.fnEnv(cur)
	env.old = old
	oenv := *env
	oenv.cur = old
	for _, l := range ct.Lets {
		if _, isParam := env.vars[l.Label]; isParam {
			continue
		}
		v := u.evalSpec(&oenv, l.Expr)
		env.vars[l.Label] = v
		oenv.vars[l.Label] = v
	}
	if result != nil {
		env.vars["result"] = *result
	}
	var violated []string
	check := func(label string, t *Term) {
		if len(u.errs) > 0 {
			u.errs = nil
			return
		}
		script := Script(u.ctx, "ALL", nil, t, false)
		file := filepath.Join(workDir, "rac-"+hashText(script)+".smt2")
		os.WriteFile(file, []byte(script), 0o644)
		outb, _ := exec.Command("z3-new", "-T:20", file).CombinedOutput()
		first := strings.TrimSpace(strings.SplitN(strings.TrimSpace(string(outb)), "\n", 2)[0])
		if first == "sat" {
			violated = append(violated, label)
		}
	}
	// conjuncts of a clause (under its implications' antecedents): A ==> (c1 && c2) gives A ==> c1, A ==> c2.
	// A conjunct over ghost state that a run cannot observe (the allocation counter, the contents of
	// the sync.Pool) is left out;
	// the others are checked one by one.
	var conjuncts func(e *SExpr) []*SExpr
	conjuncts = func(e *SExpr) []*SExpr {
		if e.Kind == "bin" && e.Name == "&&" {
			return append(conjuncts(e.Args[0]), conjuncts(e.Args[1])...)
		}
		if e.Kind == "bin" && e.Name == "==>" {
			var out []*SExpr
			for _, c := range conjuncts(e.Args[1]) {
				out = append(out, &SExpr{Kind: "bin", Name: "==>", Args: []*SExpr{e.Args[0], c}, Pos: e.Pos})
			}
			return out
		}
		return []*SExpr{e}
	}
	unobservable := func(e *SExpr) bool {
		t := e.String()
		if !kernelOK && strings.Contains(t, "K(") {
			return true // no kernel could be extracted from this tree: the clause has no meaning to evaluate
		}
		if strings.Contains(t, "inPool") || strings.Contains(t, "forallBuf") || strings.Contains(t, "poolNewIs") {
			return true // pool ghost state: the contents of a sync.Pool cannot be dumped after a run
		}
		return strings.Contains(t, "allocs")
	}
	// the candidate input must satisfy the contract's preconditions (a model found with the
	// quantified assumptions dropped, or by the precondition-model search, may not): otherwise the
	// run says nothing about the contract
	for i, rq := range ct.Requires {
		if strings.Contains(rq.Text, "forallBuf") || strings.Contains(rq.Text, "inPool") {
			continue // over all buffer objects / pool ghost state: not decidable on a dumped state
		}
		t := u.evalSpecBool(&oenv, rq.Expr)
		if len(u.errs) > 0 {
			u.errs = nil
			continue
		}
		script := Script(u.ctx, "ALL", nil, t, false)
		file := filepath.Join(workDir, "racpre-"+hashText(script)+".smt2")
		os.WriteFile(file, []byte(script), 0o644)
		outb, _ := exec.Command("z3-new", "-T:20", file).CombinedOutput()
		first := strings.TrimSpace(strings.SplitN(strings.TrimSpace(string(outb)), "\n", 2)[0])
		if first == "sat" {
			return nil, fmt.Sprintf("the candidate input violates precondition %s: discarded", clauseLabel(rq, i))
		}
	}
	if ct.Panics != nil {
		p := u.evalSpecBool(&oenv, ct.Panics.Expr)
		if hasProp(ct.Panics.props(ct), prop) {
			if panicked {
				check("panics-iff:"+clauseLabel(ct.Panics, 0)+" (panicked although the condition is false)", p)
			} else {
				check("panics-iff:"+clauseLabel(ct.Panics, 0)+" (returned although the condition is true)", Not(p))
			}
		}
	}
	if !panicked {
		for i, en := range ct.Ensures {
			if !hasProp(en.props(ct), prop) {
				continue
			}
			if result == nil && strings.Contains(en.Text, "result") {
				continue
			}
			before := len(violated)
			for _, cj := range conjuncts(en.Expr) {
				if unobservable(cj) || len(violated) > before {
					continue
				}
				check("ensures:"+clauseLabel(en, i), u.evalSpecBool(env, cj))
			}
		}
	} else if ct.Panics == nil && hasProp(ct.Props, prop) {
		violated = append(violated, "panicked although the contract has no panics clause")
	}
	return violated, ""
}
