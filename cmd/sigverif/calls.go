package main

import (
	"go/constant"
	"fmt"
	"strings"
	"go/ast"
	"go/token"
	"go/types"
	"math/big"
)

type Closure struct {
	Lit *ast.FuncLit
	Env *State
}

func (u *Unit) evalCall(st *State, call *ast.CallExpr) []Value {
	info := u.prog.Info
	// 1. conversion
	if tv, ok := info.Types[call.Fun]; ok && tv.IsType() {
		return []Value{u.evalConversion(st, call, tv.Type)}
	}
	// 2. builtins
	if id, ok := ast.Unparen(call.Fun).(*ast.Ident); ok {
		if b, ok := info.Uses[id].(*types.Builtin); ok {
			return u.evalBuiltin(st, call, b.Name())
		}
	}
	// 3. externals / idioms
	if vs, ok := u.evalExternal(st, call); ok {
		return vs
	}
	// 4. package functions and methods
	var fnObj *types.Func
	var recv *Value
	var targs []types.Type
	switch f := ast.Unparen(call.Fun).(type) {
	case *ast.Ident:
		fnObj, _ = info.Uses[f].(*types.Func)
		if inst, ok := info.Instances[f]; ok {
			for i := 0; i < inst.TypeArgs.Len(); i++ {
				targs = append(targs, u.conc(inst.TypeArgs.At(i)))
			}
		}
	case *ast.IndexExpr:
		if id, ok := f.X.(*ast.Ident); ok {
			fnObj, _ = info.Uses[id].(*types.Func)
			if inst, ok := info.Instances[id]; ok {
				for i := 0; i < inst.TypeArgs.Len(); i++ {
					targs = append(targs, u.conc(inst.TypeArgs.At(i)))
				}
			}
		}
	case *ast.IndexListExpr:
		if id, ok := f.X.(*ast.Ident); ok {
			fnObj, _ = info.Uses[id].(*types.Func)
			if inst, ok := info.Instances[id]; ok {
				for i := 0; i < inst.TypeArgs.Len(); i++ {
					targs = append(targs, u.conc(inst.TypeArgs.At(i)))
				}
			}
		}
	case *ast.SelectorExpr:
		if sel, ok := info.Selections[f]; ok && sel.Kind() == types.MethodVal {
			fnObj = sel.Obj().(*types.Func)
			base := u.eval(st, f.X)
			path := sel.Index()
			rv := u.fieldPath(st, base, sel.Recv(), path[:len(path)-1])
			recv = &rv
			// receiver type arguments
			rt := u.conc(sel.Recv())
			for _, ix := range path[:len(path)-1] {
				if p, ok := rt.(*types.Pointer); ok {
					rt = p.Elem()
				}
				rt = rt.Underlying().(*types.Struct).Field(ix).Type()
			}
			if p, ok := rt.(*types.Pointer); ok {
				rt = p.Elem()
			}
			if n, ok := rt.(*types.Named); ok && n.TypeArgs() != nil {
				for i := 0; i < n.TypeArgs().Len(); i++ {
					targs = append(targs, u.conc(n.TypeArgs().At(i)))
				}
			}
		}
	}
	if fnObj == nil {
		u.errorf("%s: unsupported call %s", u.pos(call), exprStr(call.Fun))
		u.abstracted = append(u.abstracted, "call "+exprStr(call.Fun))
		return nil
	}
	fi := u.prog.ByObj[fnObj.Origin()]
	if fi == nil {
		if sig, ok := fnObj.Type().(*types.Signature); ok && sig.Recv() != nil && recv != nil && strings.HasPrefix(recv.Str, "opaque:") {
			// method of an opaque object of another package held in package state (an atomic slot in
			// a struct field, …). Its state is outside the model: results are arbitrary, and every
			// method except a pure load counts as a write to state that no contract declares.
			for _, a := range call.Args {
				u.eval(st, a)
			}
			u.opaqueUsed = true
			if fnObj.Name() != "Load" {
				u.oblige(st, "writes", "writes:foreign-state:"+u.site("write"), append([]string{"C19", "C11"}, u.fnProps()...), False)
			}
			var out []Value
			for i := 0; i < sig.Results().Len(); i++ {
				rt := sig.Results().At(i).Type()
				if p, ok := rt.(*types.Pointer); ok {
					if _, isTP := p.Elem().(*types.TypeParam); isTP && len(targs) > 0 {
						rt = types.NewPointer(targs[0])
					}
				}
				out = append(out, u.freshValue(st, rt, fmt.Sprintf("ext%d", u.nextBound())))
			}
			return out
		}
		u.errorf("%s: call to function without source %s", u.pos(call), fnObj.FullName())
		return nil
	}
	var args []Value
	if recv != nil {
		args = append(args, *recv)
	}
	for i, a := range call.Args {
		v := u.eval(st, a)
		// implicit conversion to interface parameter
		if i < fi.Sig.Params().Len() {
			if _, isI := fi.Sig.Params().At(i).Type().Underlying().(*types.Interface); isI && v.K != KIface && !isTypeParam(fi.Sig.Params().At(i).Type()) {
				if v.K != KPtrData && v.K != KBuf && v.K != KPool {
					u.bumpAllocs(st, 1)
				}
				inner := v
				v = Value{K: KIface, T: fi.Sig.Params().At(i).Type(), Inner: &inner}
			}
		}
		args = append(args, v)
	}
	return u.callByContract(st, fi, targs, args, call)
}

func (u *Unit) evalConversion(st *State, call *ast.CallExpr, to types.Type) Value {
	toC := u.conc(to)
	if _, isI := toC.Underlying().(*types.Interface); isI {
		x := u.eval(st, call.Args[0])
		if x.K != KBuf && x.K != KPool && x.K != KPtrData {
			u.bumpAllocs(st, 1)
		}
		return Value{K: KIface, T: toC, Inner: &x}
	}
	x := u.eval(st, call.Args[0])
	toParam := isTypeParam(to)
	switch {
	case x.K == KInt && u.isIndexType(to) && !toParam:
		return Value{K: KInt, T: toC, Term: x.Term}
	case x.K == KInt && u.mode == "realfloat":
		return u.rfConvert(st, x, toC)
	case x.K == KNum && u.mode == "realfloat" && x.Term.Sort == SReal:
		return u.rfConvert(st, x, toC)
	case x.K == KInt:
		// index integer to fixed-width numeric
		bv := mk("(_ int2bv 64)", SBV(64), x.Term)
		src := Value{K: KNum, T: types.Typ[types.Int64], Term: bv}
		if u.numSort(toC, toParam) == SBV(64) {
			src.T = toC
			return src
		}
		return u.convertNum(st, src, toC, toParam)
	case x.K == KNum && u.isIndexType(to) && !toParam:
		// fixed-width numeric to index integer
		if isBV(x.Term) {
			w := bvWidth(x.Term.Sort)
			n := mk("bv2nat", SInt, x.Term)
			if !isUnsignedT(x.T) {
				n = Ite(mk("bvslt", SBool, x.Term, BVLit64(0, w)), Sub(n, IntBig(new(big.Int).Lsh(big.NewInt(1), uint(w)))), n)
			}
			return Value{K: KInt, T: toC, Term: n}
		}
		u.errorf("%s: conversion of %s to index integer not modelled", u.pos(call), x.T)
		return Value{K: KInt, T: toC, Term: IntLit(0)}
	case x.K == KNum:
		return u.convertNum(st, x, toC, toParam)
	case x.K == KString:
		return x
	}
	u.errorf("%s: unsupported conversion to %s", u.pos(call), toC)
	return x
}

func (u *Unit) evalBuiltin(st *State, call *ast.CallExpr, name string) []Value {
	switch name {
	case "len", "cap":
		x := u.eval(st, call.Args[0])
		if x.K == KString {
			return []Value{{K: KInt, T: types.Typ[types.Int], Term: IntLit(int64(len(x.Str)))}}
		}
		if x.K != KSlice {
			u.errorf("%s: %s of non-slice", u.pos(call), name)
			return []Value{intV(IntLit(0))}
		}
		if name == "len" {
			return []Value{intV(x.Len)}
		}
		return []Value{intV(x.Cap)}
	case "make":
		t := u.conc(u.staticType(call.Args[0]))
		sl, ok := t.(*types.Slice)
		if !ok {
			u.errorf("%s: make of non-slice", u.pos(call))
			return []Value{{K: KUnit}}
		}
		n := u.eval(st, call.Args[1])
		c := n
		if len(call.Args) > 2 {
			c = u.eval(st, call.Args[2])
		}
		u.failure(st, "make", Or(Lt(n.Term, IntLit(0)), Gt(n.Term, c.Term)))
		// out-of-memory is outside the model: an allocation that succeeds has at most 2^48 elements
		st.Assume(Le(c.Term, IntLit(maxSliceLen)))
		return []Value{u.allocBlock(st, sl.Elem(), n.Term, c.Term)}
	case "append":
		s := u.eval(st, call.Args[0])
		if s.K != KSlice {
			u.errorf("%s: append to non-slice", u.pos(call))
			return []Value{s}
		}
		if call.Ellipsis.IsValid() {
			t := u.eval(st, call.Args[1])
			return []Value{u.appendSlice(st, s, &t, nil)}
		}
		if len(call.Args) == 2 {
			v := u.eval(st, call.Args[1])
			return []Value{u.appendSlice(st, s, nil, &v)}
		}
		u.errorf("%s: append with %d arguments not modelled", u.pos(call), len(call.Args))
		return []Value{s}
	case "new":
		u.bumpAllocs(st, 1)
		return []Value{{K: KUnit, Str: "new"}}
	case "min", "max":
		a := u.eval(st, call.Args[0])
		b := u.eval(st, call.Args[1])
		if a.K == KInt {
			if name == "min" {
				return []Value{intV(Ite(Lt(a.Term, b.Term), a.Term, b.Term))}
			}
			return []Value{intV(Ite(Gt(a.Term, b.Term), a.Term, b.Term))}
		}
	case "copy":
		d := u.eval(st, call.Args[0])
		sv := u.eval(st, call.Args[1])
		if d.K != KSlice || sv.K != KSlice || !types.Identical(d.Elem, sv.Elem) {
			u.errorf("%s: copy on unsupported operands", u.pos(call))
			return []Value{intV(IntLit(0))}
		}
		n := Ite(Lt(d.Len, sv.Len), d.Len, sv.Len)
		h := u.heap(st, d.Elem)
		nh := u.ctx.Fresh(u.symName("H:"+elemKey(d.Elem)), h.Sort)
		q := boundVar("q?" + fmt.Sprint(u.nextBound()))
		st.Assume(Forall([]*Term{q}, Ite(And(Le(d.Ptr, q), Lt(q, Add(d.Ptr, n))),
			Eq(Select(nh, q), Select(h, Add(sv.Ptr, Sub(q, d.Ptr)))), Eq(Select(nh, q), Select(h, q)))))
		u.writeEvent(st, "H:"+elemKey(d.Elem))
		u.setComp(st, "H:"+elemKey(d.Elem), nh)
		return []Value{intV(n)}
	}
	if name == "clear" && len(call.Args) == 1 {
		// clear(s) on a slice: every element of s[0:len(s)] becomes the zero value
		d := u.eval(st, call.Args[0])
		if d.K == KSlice {
			h := u.heap(st, d.Elem)
			nh := u.ctx.Fresh(u.symName("H:"+elemKey(d.Elem)), h.Sort)
			q := boundVar("q?" + fmt.Sprint(u.nextBound()))
			zero := u.zeroOf(d.Elem, true).Term
			st.Assume(Forall([]*Term{q}, Ite(And(Le(d.Ptr, q), Lt(q, Add(d.Ptr, d.Len))),
				Eq(Select(nh, q), zero), Eq(Select(nh, q), Select(h, q)))))
			u.writeEvent(st, "H:"+elemKey(d.Elem))
			u.setComp(st, "H:"+elemKey(d.Elem), nh)
			return []Value{{K: KUnit}}
		}
	}
	u.errorf("%s: unsupported builtin %s", u.pos(call), name)
	return []Value{{K: KUnit}}
}

// allocBlock models make([]E, n, c): a fresh zero-filled block.
func (u *Unit) allocBlock(st *State, elem types.Type, n, c *Term) Value {
	b := u.brk(st, elem)
	h := u.heap(st, elem)
	nh := u.ctx.Fresh(u.symName("H:"+elemKey(elem)), h.Sort)
	q := boundVar("q?" + fmt.Sprint(u.nextBound()))
	zero := u.zeroOf(elem, true).Term
	st.Assume(Forall([]*Term{q}, Ite(And(Le(b, q), Lt(q, Add(b, c))), Eq(Select(nh, q), zero), Eq(Select(nh, q), Select(h, q)))))
	u.setComp(st, "H:"+elemKey(elem), nh)
	u.setComp(st, "brk:"+elemKey(elem), Add(b, c))
	u.bumpAllocs(st, 1)
	return Value{K: KSlice, T: types.NewSlice(elem), Elem: elem, Ptr: b, Len: n, Cap: c}
}

// appendSlice models append(s, t...) (t != nil) or append(s, v) (v != nil).
// The in-place and the growing case are merged with ite; the growth capacity
// is unspecified (any cap' >= len').
func (u *Unit) appendSlice(st *State, s Value, t *Value, v *Value) Value {
	elem := s.Elem
	n := IntLit(1)
	if t != nil {
		n = t.Len
	}
	newLen := Add(s.Len, n)
	fits := Le(newLen, s.Cap)
	h := u.heap(st, elem)
	b := u.brk(st, elem)
	// in place: elements [s.ptr+len, s.ptr+len+n) overwritten
	// grown: fresh block at b of capacity c' >= newLen: copy, then the rest zero
	ncap := u.ctx.Fresh("growcap", SInt)
	st.Assume(And(Ge(ncap, newLen), Le(ncap, IntLit(maxSliceLen))))
	st.Assume(Le(newLen, IntLit(maxSliceLen))) // allocation succeeded (out-of-memory is outside the model)
	nh := u.ctx.Fresh(u.symName("H:"+elemKey(elem)), h.Sort)
	q := boundVar("q?" + fmt.Sprint(u.nextBound()))
	srcAt := func(k *Term) *Term { // k-th appended element
		if t != nil {
			return Select(h, Add(t.Ptr, k))
		}
		return v.Term
	}
	zero := u.zeroOf(elem, true).Term
	inPlace := Ite(And(Le(Add(s.Ptr, s.Len), q), Lt(q, Add(s.Ptr, newLen))),
		Eq(Select(nh, q), srcAt(Sub(q, Add(s.Ptr, s.Len)))),
		Eq(Select(nh, q), Select(h, q)))
	grown := Ite(And(Le(b, q), Lt(q, Add(b, s.Len))),
		Eq(Select(nh, q), Select(h, Add(s.Ptr, Sub(q, b)))),
		Ite(And(Le(Add(b, s.Len), q), Lt(q, Add(b, newLen))),
			Eq(Select(nh, q), srcAt(Sub(q, Add(b, s.Len)))),
			Ite(And(Le(Add(b, newLen), q), Lt(q, Add(b, ncap))),
				Eq(Select(nh, q), zero),
				Eq(Select(nh, q), Select(h, q)))))
	st.Assume(Forall([]*Term{q}, Ite(fits, inPlace, grown)))
	u.setComp(st, "H:"+elemKey(elem), nh)
	u.setComp(st, "brk:"+elemKey(elem), Ite(fits, b, Add(b, ncap)))
	a := u.comp(st, "allocs", SInt)
	u.setComp(st, "allocs", Ite(fits, a, Add(a, IntLit(1))))
	return Value{K: KSlice, T: s.T, Elem: elem,
		Ptr: Ite(fits, s.Ptr, b), Len: newLen, Cap: Ite(fits, s.Cap, ncap)}
}

// ---- externals -----------------------------------------------------------------------

func selName(e ast.Expr) (x ast.Expr, name string, ok bool) {
	s, ok := ast.Unparen(e).(*ast.SelectorExpr)
	if !ok {
		return nil, "", false
	}
	return s.X, s.Sel.Name, true
}

func (u *Unit) pkgFuncName(e ast.Expr) string {
	x, name, ok := selName(e)
	if !ok {
		return ""
	}
	if id, ok := x.(*ast.Ident); ok {
		if pn, ok := u.prog.Info.Uses[id].(*types.PkgName); ok {
			return pn.Imported().Path() + "." + name
		}
	}
	return ""
}

func (u *Unit) evalExternal(st *State, call *ast.CallExpr) ([]Value, bool) {
	switch u.pkgFuncName(call.Fun) {
	case "math.Ceil", "math.Floor", "math.Round", "math.Trunc":
		x := u.eval(st, call.Args[0])
		if u.mode != "realfloat" || x.Term == nil || x.Term.Sort != SReal {
			u.errorf("%s: %s outside realfloat mode", u.pos(call), u.pkgFuncName(call.Fun))
			return []Value{x}, true
		}
		// the result is integer valued: bind the integer to a fresh constant
		fli := func(t *Term) *Term { return mk("to_int", SInt, t) }
		var ri *Term
		switch u.pkgFuncName(call.Fun) {
		case "math.Floor":
			ri = fli(x.Term)
		case "math.Ceil":
			ri = Neg(fli(mk("-", SReal, x.Term)))
		case "math.Trunc":
			ri = Ite(Ge(x.Term, RealLit("0.0")), fli(x.Term), Neg(fli(mk("-", SReal, x.Term))))
		case "math.Round":
			half := RealLit("0.5")
			ri = Ite(Ge(x.Term, RealLit("0.0")), fli(mk("+", SReal, x.Term, half)), Neg(fli(mk("+", SReal, mk("-", SReal, x.Term), half))))
		}
		k := u.ctx.Fresh("rfi_math", SInt)
		u.defs = append(u.defs, Eq(k, ri))
		kv := Value{K: KInt, T: types.Typ[types.Int64], Term: k}
		return []Value{{K: KNum, T: x.T, Term: mk("to_real", SReal, k), Spec: x.Spec, Inner: &kv}}, true
	case "math.IsInf", "math.IsNaN", "math.Signbit", "math.Abs", "math.Copysign":
		// float64 classification / sign helpers: IEEE operators in precise mode, uninterpreted
		// functions of the abstract sample sort in shape proofs
		name := u.pkgFuncName(call.Fun)
		x := u.eval(st, call.Args[0])
		if x.Term == nil {
			break
		}
		boolv := func(t *Term) []Value { return []Value{{K: KBool, T: types.Typ[types.Bool], Term: t}} }
		numv := func(t *Term) []Value { return []Value{{K: KNum, T: x.T, Term: t}} }
		switch {
		case isFP(x.Term):
			neg := mk("fp.isNegative", SBool, x.Term)
			switch name {
			case "math.IsNaN":
				return boolv(mk("fp.isNaN", SBool, x.Term)), true
			case "math.Signbit":
				return boolv(neg), true
			case "math.Abs":
				return numv(mk("fp.abs", x.Term.Sort, x.Term)), true
			case "math.IsInf":
				sg := u.eval(st, call.Args[1])
				inf := mk("fp.isInfinite", SBool, x.Term)
				if sg.Term != nil && sg.Term.Sort == SInt {
					return boolv(And(inf, Or(Eq(sg.Term, IntLit(0)), And(Gt(sg.Term, IntLit(0)), Not(neg)), And(Lt(sg.Term, IntLit(0)), neg)))), true
				}
			case "math.Copysign":
				y := u.eval(st, call.Args[1])
				if y.Term != nil && isFP(y.Term) {
					ax := mk("fp.abs", x.Term.Sort, x.Term)
					return numv(Ite(mk("fp.isNegative", SBool, y.Term), mk("fp.neg", x.Term.Sort, ax), ax)), true
				}
			}
		case isAbs(x.Term):
			sn := x.Term.Sort[2:]
			switch name {
			case "math.IsNaN", "math.Signbit":
				return boolv(u.ctx.App("fn_"+name[5:]+"_"+sn, SBool, x.Term)), true
			case "math.Abs":
				return numv(u.ctx.App("fn_Abs_"+sn, x.Term.Sort, x.Term)), true
			case "math.IsInf":
				sg := u.eval(st, call.Args[1])
				if sg.Term != nil && sg.Term.Sort == SInt {
					return boolv(u.ctx.App("fn_IsInf_"+sn, SBool, x.Term, sg.Term)), true
				}
			case "math.Copysign":
				y := u.eval(st, call.Args[1])
				if y.Term != nil && y.Term.Sort == x.Term.Sort {
					return numv(u.ctx.App("fn_Copysign_"+sn, x.Term.Sort, x.Term, y.Term)), true
				}
			}
		}
		u.errorf("%s: %s on unsupported operands (mode %s)", u.pos(call), name, u.mode)
		return []Value{x}, true
	case "fmt.Sprintf", "fmt.Sprint", "fmt.Sprintln", "fmt.Errorf", "errors.New", "strconv.Itoa":
		// string building: allocates, result opaque
		for _, a := range call.Args {
			v := u.eval(st, a)
			if v.K != KString && v.K != KIface && v.K != KBuf && v.K != KPool {
				u.bumpAllocs(st, 1) // boxed into an interface
			}
		}
		u.bumpAllocs(st, 1)
		return []Value{{K: KString, T: types.Typ[types.String], Str: "formatted"}}, true
	case "encoding/binary.Size":
		// documented behaviour: byte size of a fixed-size value; -1 for the platform-sized kinds
		// int, uint, uintptr (and for anything that is not fixed-size data). The boxing of the
		// argument allocates.
		t := u.conc(u.staticType(call.Args[0]))
		u.bumpAllocs(st, 1)
		if b, ok := t.Underlying().(*types.Basic); ok && b.Info()&(types.IsInteger|types.IsFloat) != 0 {
			switch b.Kind() {
			case types.Int, types.Uint, types.Uintptr:
				return []Value{intV(IntLit(-1))}, true
			}
			return []Value{intV(IntLit(u.prog.Sizes.Sizeof(b)))}, true
		}
		u.errorf("%s: binary.Size on unsupported operand type %s", u.pos(call), t)
		return []Value{intV(IntLit(-1))}, true
	case "unsafe.Sizeof":
		t := u.conc(u.staticType(call.Args[0]))
		sz := u.prog.Sizes.Sizeof(t.Underlying())
		return []Value{{K: KNum, T: types.Typ[types.Uintptr], Term: BVLit64(sz, 64)}}, true
	}
	// reflect.ValueOf(s).Elem().SetCap(n)
	if x1, n1, ok := selName(call.Fun); ok && n1 == "SetCap" {
		if c1, ok := ast.Unparen(x1).(*ast.CallExpr); ok {
			if x2, n2, ok := selName(c1.Fun); ok && n2 == "Elem" {
				if c2, ok := ast.Unparen(x2).(*ast.CallExpr); ok && u.pkgFuncName(c2.Fun) == "reflect.ValueOf" {
					s := u.eval(st, c2.Args[0])
					if s.K == KIface && s.Inner != nil {
						s = *s.Inner
					}
					n := u.eval(st, call.Args[0])
					if s.K != KPtrData || n.K != KInt {
						u.errorf("%s: reflect SetCap idiom on unsupported operand", u.pos(call))
						return nil, true
					}
					b := Value{K: KBuf, Term: s.Term, Elem: s.Elem}
					d := u.bufData(st, b)
					u.failure(st, "SetCap", Or(Lt(n.Term, d.Len), Gt(n.Term, d.Cap)))
					d.Cap = n.Term
					u.setBufData(st, b, d)
					return nil, true
				}
			}
		}
	}
	// sync.Pool methods
	if x, name, ok := selName(call.Fun); ok && (name == "Get" || name == "Put") {
		if t := u.staticType(x); t != nil && namedName(t) == "Pool" && namedPkg(t) == "sync" {
			p := u.eval(st, x)
			if name == "Put" {
				v := u.eval(st, call.Args[0])
				return u.poolPut(st, p, v), true
			}
			return u.poolGet(st, p, call), true
		}
	}
	return nil, false
}

// ---- calls by contract ------------------------------------------------------------------

func (u *Unit) calleeEnv(st *State, fi *FuncInfo, ct *Contract, targs []types.Type, args []Value) *SpecEnv {
	env := &SpecEnv{u: u, cur: st, old: st, vars: map[string]Value{}, tvars: map[string]types.Type{}}
	for i, n := range ct.Params {
		if i < len(args) {
			a := args[i]
			if a.K == KIface && a.Inner != nil {
				a = *a.Inner
			}
			env.vars[n] = a
		}
	}
	tn := ct.TNames
	if len(tn) == 0 {
		for _, tp := range fi.TParam {
			tn = append(tn, tp.Obj().Name())
		}
	}
	for i, n := range tn {
		if i < len(targs) {
			env.tvars[n] = targs[i]
		}
	}
	return env
}

func (u *Unit) callByContract(st *State, fi *FuncInfo, targs []types.Type, args []Value, call *ast.CallExpr) []Value {
	ct := u.cf.Funcs[fi.Key]
	if ct == nil {
		// a helper without a contract is inlined (so extracting a helper function does not
		// by itself make the caller unverifiable)
		return u.inlineCall(st, fi, targs, args, call)
	}
	nparams := fi.Sig.Params().Len()
	if fi.Sig.Recv() != nil {
		nparams++
	}
	if len(ct.Params) != nparams {
		u.errorf("contract of %s binds %d parameters, function has %d", fi.Key, len(ct.Params), nparams)
	}
	u.calls[fi.Key] = true
	env := u.calleeEnv(st, fi, ct, targs, args)
	for _, l := range ct.Lets {
		if _, isParam := env.vars[l.Label]; isParam {
			continue // ghost binding of an interface parameter: only for verifying the body
		}
		env.vars[l.Label] = u.evalSpec(env, l.Expr)
	}
	for _, h := range u.ct.CallHints {
		if h.Label == fi.Key {
			st.Assume(u.evalHint(u.fnEnv(st), h))
		}
	}
	site := u.site("call:" + fi.Key)
	// preconditions
	for i, r := range ct.Requires {
		g := u.evalSpecBool(env, r.Expr)
		lbl := r.Label
		if lbl == "" {
			lbl = fmt.Sprint(i + 1)
		}
		u.oblige(st, "pre@call", "pre@"+site+":"+lbl, u.fnProps(), g)
		st.Assume(g)
	}
	// panics
	if ct.Panics != nil {
		p := u.evalSpecBool(env, ct.Panics.Expr)
		if u.ct.Panics != nil {
			ps := st.clone()
			ps.Assume(p)
			u.exits = append(u.exits, &Exit{st: ps, panic: true, note: site})
		} else {
			u.oblige(st, "no-panic", "no-panic:"+site, u.fnProps(), Not(p))
		}
		st.Assume(Not(p))
	}
	// result type(s)
	tsub := map[*types.TypeParam]types.Type{}
	for i, tp := range fi.TParam {
		if i < len(targs) {
			tsub[tp] = targs[i]
		}
	}
	var results []Value
	oldSt := st.clone()
	// modifies: havoc (a `stored(b,i,v)` postcondition defines the new heap exactly)
	exact := map[string]*Term{}
	for _, en := range ct.Ensures {
		if en.Expr.Kind == "call" && en.Expr.Name == "stored" && len(en.Expr.Args) == 3 {
			b := u.evalSpec(env, en.Expr.Args[0])
			i := u.evalSpec(env, en.Expr.Args[1])
			v := u.evalSpec(env, en.Expr.Args[2])
			if b.K == KBuf {
				d := u.bufData(st, b)
				exact["H:"+elemKey(b.Elem)] = Store(u.heap(st, b.Elem), Add(d.Ptr, i.Term), v.Term)
				u.writeInFrame(st, b.Elem, Add(d.Ptr, i.Term))
			}
		}
	}
	u.inCallee = true
	for m := range ct.Modifies {
		u.havocClass(st, m, ct, env)
	}
	u.inCallee = false
	for k, t := range exact {
		st.mem[k] = t
	}
	penv := *env
	penv.cur, penv.old = st, oldSt
	nres := fi.Sig.Results().Len()
	if ct.Pure && nres == 1 {
		// result defined by the first `ensures result == E`
		for _, en := range ct.Ensures {
			if en.Expr.Kind == "bin" && en.Expr.Name == "==" && en.Expr.Args[0].Kind == "id" && en.Expr.Args[0].Name == "result" {
				v := u.evalSpec(&penv, en.Expr.Args[1])
				v.T = substType(fi.Sig.Results().At(0).Type(), tsub)
				// fix up kind for index-typed results
				results = []Value{v}
				break
			}
		}
	}
	if results == nil && nres > 0 {
		save := u.curTsub
		u.curTsub = tsub
		for i := 0; i < nres; i++ {
			results = append(results, u.freshValue(st, fi.Sig.Results().At(i).Type(), fmt.Sprintf("ret_%s", fi.Key)))
		}
		u.curTsub = save
	}
	if nres == 1 {
		penv.vars = copyVars(penv.vars)
		penv.vars["result"] = results[0]
	}
	for _, en := range ct.Ensures {
		st.Assume(u.evalSpecBool(&penv, en.Expr))
	}
	return results
}

func copyVars(m map[string]Value) map[string]Value {
	n := map[string]Value{}
	for k, v := range m {
		n[k] = v
	}
	return n
}

// havocClass havocs the state components named by a modifies class:
//   H(x)    element heap of x's element type      hdr(x)  header arrays of x's type
//   brk(x)  allocation watermarks                 allocs  the allocation counter
//   pool    the pool ghost state
func (u *Unit) havocClass(st *State, m string, ct *Contract, env *SpecEnv) {
	var cls, arg string
	if i := indexByte(m, '('); i >= 0 {
		cls, arg = m[:i], m[i+1:len(m)-1]
	} else {
		cls = m
	}
	var elem types.Type
	if arg != "" {
		ae, err := parseSpec(arg)
		if err != nil {
			u.errorf("modifies: %v", err)
			return
		}
		elem = u.elemOf(env, ae)
	}
	if u.inCallee {
		switch cls {
		case "H":
			u.writeEvent(st, "H:"+elemKey(elem))
		case "hdr":
			// the callee may write the header of the object its clause names
			wrote := false
			if ae, err := parseSpec(arg); err == nil {
				if _, isType := u.specType(env, ae); !isType {
					if v := u.evalSpec(env, ae); (v.K == KBuf || v.K == KPtrData) && v.Term != nil {
						u.hdrWriteEvent(st, "dlen:"+elemKey(elem), elem, v.Term)
						wrote = true
					}
				}
			}
			if !wrote {
				u.writeEvent(st, "dlen:"+elemKey(elem))
			}
		case "newhdr":
			// the callee writes only headers of objects it allocates: no write to shared state, but the
			// header class changes, which the caller's frame has to allow
			if !u.declaresClass("hdr", elemKey(elem)) && !u.declaresClass("newhdr", elemKey(elem)) {
				u.writeEvent(st, "dlen:"+elemKey(elem))
			}
		}
	}
	if cls == "newhdr" {
		cls = "hdr"
	}
	switch cls {
	case "H":
		u.havoc(st, "H:"+elemKey(elem), SArr(SInt, u.elemSort(elem)))
	case "hdr":
		for _, f := range hdrFields {
			s := arrII
			if f == "bd" {
				s = SArr(SInt, SBV8)
			}
			u.havoc(st, f+":"+elemKey(elem), s)
		}
	case "brk":
		u.havoc(st, "brk:"+elemKey(elem), SInt)
	case "obj":
		u.havoc(st, "obrk:"+elemKey(elem), SInt)
	case "allocs":
		u.havoc(st, "allocs", SInt)
	case "pool":
		u.havoc(st, "items", SArr(SInt, SArr(SInt, SBool)))
		u.havoc(st, "pbrk", SInt)
		for _, k := range sortedKeysT(u.initMem) {
			if strings.HasPrefix(k, "pcap.") {
				u.havoc(st, k, arrII)
			}
		}
	default:
		u.errorf("unknown modifies class %q", m)
	}
}

func indexByte(s string, c byte) int {
	for i := 0; i < len(s); i++ {
		if s[i] == c {
			return i
		}
	}
	return -1
}

// ---- loops ----------------------------------------------------------------------------------

func assignedVars(info *types.Info, nodes ...ast.Node) map[types.Object]bool {
	out := map[types.Object]bool{}
	for _, n := range nodes {
		if n == nil {
			continue
		}
		ast.Inspect(n, func(x ast.Node) bool {
			switch s := x.(type) {
			case *ast.AssignStmt:
				for _, l := range s.Lhs {
					if id, ok := l.(*ast.Ident); ok {
						if o := info.ObjectOf(id); o != nil {
							out[o] = true
						}
					}
				}
			case *ast.IncDecStmt:
				if id, ok := s.X.(*ast.Ident); ok {
					if o := info.ObjectOf(id); o != nil {
						out[o] = true
					}
				}
			case *ast.RangeStmt:
				for _, l := range []ast.Expr{s.Key, s.Value} {
					if id, ok := l.(*ast.Ident); ok && id != nil {
						if o := info.ObjectOf(id); o != nil {
							out[o] = true
						}
					}
				}
			}
			return true
		})
	}
	return out
}

// zeroingIdiom recognises `for i := range s { s[i] = 0 }` (s a side-effect-free slice expression,
// the idiom the compiler itself turns into a memclr) when the contract gives the loop no invariant,
// and executes it as clear(s): the summary is exact, so no invariant is needed.
func (u *Unit) zeroingIdiom(st *State, rng *ast.RangeStmt) bool {
	key, ok := rng.Key.(*ast.Ident)
	if !ok || rng.Value != nil || rng.Tok != token.DEFINE || len(rng.Body.List) != 1 {
		return false
	}
	pure := func(e ast.Expr) bool {
		ok := true
		ast.Inspect(e, func(n ast.Node) bool {
			switch n.(type) {
			case nil, *ast.Ident, *ast.SelectorExpr, *ast.ParenExpr:
			default:
				ok = false
			}
			return ok
		})
		return ok
	}
	as, ok := rng.Body.List[0].(*ast.AssignStmt)
	if !ok || as.Tok != token.ASSIGN || len(as.Lhs) != 1 || len(as.Rhs) != 1 || !pure(rng.X) {
		return false
	}
	ix, ok := as.Lhs[0].(*ast.IndexExpr)
	if !ok || types.ExprString(ix.X) != types.ExprString(rng.X) {
		return false
	}
	if id, ok := ix.Index.(*ast.Ident); !ok || u.prog.Info.ObjectOf(id) != u.prog.Info.ObjectOf(key) {
		return false
	}
	tv, ok := u.prog.Info.Types[as.Rhs[0]]
	if !ok || tv.Value == nil || constant.Sign(tv.Value) != 0 {
		return false
	}
	x := u.eval(st, rng.X)
	if x.K != KSlice {
		return false
	}
	h := u.heap(st, x.Elem)
	nh := u.ctx.Fresh(u.symName("H:"+elemKey(x.Elem)), h.Sort)
	q := boundVar("q?" + fmt.Sprint(u.nextBound()))
	zero := u.zeroOf(x.Elem, true).Term
	st.Assume(Forall([]*Term{q}, Ite(And(Le(x.Ptr, q), Lt(q, Add(x.Ptr, x.Len))),
		Eq(Select(nh, q), zero), Eq(Select(nh, q), Select(h, q)))))
	u.writeEvent(st, "H:"+elemKey(x.Elem))
	u.setComp(st, "H:"+elemKey(x.Elem), nh)
	return true
}

func (u *Unit) loopEnv(st *State, ord int) *SpecEnv {
	env := u.fnEnv(st)
	env.kord = ord
	env.pre = u.loopPre[ord]
	for o, obj := range u.loopVar {
		if v, ok := st.vars[obj]; ok {
			env.vars[fmt.Sprintf("$i%d", o)] = v
			if o == ord {
				env.vars["$i"] = v
			}
		}
	}
	return env
}

func (u *Unit) execLoop(st *State, init ast.Stmt, cond ast.Expr, post ast.Stmt, body *ast.BlockStmt, rng *ast.RangeStmt) []*State {
	var node ast.Node = rng
	if rng == nil {
		node = body
	}
	ord := u.loopOrdOf[node]
	if ord == 0 {
		u.loopOrd++
		ord = 1000 + u.loopOrd
	}
	lc := u.ct.Loops[ord]
	info := u.prog.Info
	if lc == nil && rng != nil && u.zeroingIdiom(st, rng) {
		return []*State{st}
	}
	if init != nil {
		sts := u.execStmt(st, init)
		if len(sts) != 1 {
			u.errorf("loop %d: init forks", ord)
			return sts
		}
		st = sts[0]
	}
	// induction variable
	var ivar types.Object
	var rngLen *Term
	var rngSlice Value
	if rng != nil {
		x := u.eval(st, rng.X)
		if x.K != KSlice {
			u.errorf("loop %d: only range over a slice is modelled", ord)
			return []*State{st}
		}
		rngLen = x.Len
		rngSlice = x
		if rng.Key == nil {
			u.errorf("loop %d: range without an index variable is not modelled", ord)
			return []*State{st}
		}
		if id, ok := rng.Key.(*ast.Ident); ok {
			ivar = info.ObjectOf(id)
			st.vars[ivar] = intV(IntLit(0))
		}
	} else if post != nil {
		for o := range assignedVars(info, post) {
			ivar = o
		}
	}
	if ivar != nil {
		u.loopVar[ord] = ivar
	}
	if lc == nil {
		u.oblige(st, "contract-binds", fmt.Sprintf("loop%d:has-invariant", ord), u.fnProps(), False)
		u.unbound = append(u.unbound, fmt.Sprintf("loop %d of %s has no invariant in the contract file", ord, u.fn.Key))
		lc = &LoopContract{Ordinal: ord}
	}
	u.loopsSeen[ord] = true
	u.loopPre[ord] = st.clone()
	// inv-init
	env0 := u.loopEnv(st, ord)
	for i, inv := range lc.Invariants {
		u.oblige(st, "inv-init", fmt.Sprintf("loop%d:inv-init:%s", ord, clauseLabel(inv, i)), inv.props(u.ct), u.evalSpecBool(env0, inv.Expr))
	}
	// havoc: assigned variables declared outside the loop + modifiable components
	head := st.clone()
	head.branch = append([]*Term{}, st.branch...)
	u.headCounter[ord] = u.ctx.n
	mods := assignedVars(info, body, post)
	for o := range mods {
		if v, ok := head.vars[o]; ok {
			nv := u.freshLike(head, v, o.Name())
			head.vars[o] = nv
		}
	}
	if ivar != nil && rng != nil {
		head.vars[ivar] = u.freshLike(head, intV(IntLit(0)), ivar.Name())
	}
	kinds := u.loopModKinds(body, post)
	for m := range u.ct.Modifies {
		cls := m
		if i := indexByte(m, '('); i >= 0 {
			cls = m[:i]
		}
		if kinds[cls] {
			u.havocClass(head, m, u.ct, u.fnEnv(head))
		}
	}
	headHavoc := map[string]bool{}
	for k, v := range head.mem {
		if o, ok := st.mem[k]; !ok || o != v {
			headHavoc[k] = true
		}
	}
	envH := u.loopEnv(head, ord)
	for _, inv := range lc.Invariants {
		head.Assume(u.evalSpecBool(envH, inv.Expr))
	}
	for _, h := range lc.Hints {
		head.Assume(u.evalHint(envH, h))
	}
	headMem := map[string]*Term{}
	for k, v := range head.mem {
		headMem[k] = v
	}
	// guard
	guardOf := func(s *State) *Term {
		if rng != nil {
			return Lt(s.vars[ivar].Term, rngLen)
		}
		if cond == nil {
			return True
		}
		return u.eval(s, cond).Term
	}
	// preserve path
	p := head.clone()
	p.branch = nil
	gp := guardOf(p)
	p.Assume(gp)
	if rng != nil && rng.Value != nil {
		if vid, ok := rng.Value.(*ast.Ident); ok && vid.Name != "_" {
			p.vars[info.ObjectOf(vid)] = u.loadElem(p, rngSlice, p.vars[ivar].Term)
		}
	}
	var dec0 *Term
	if lc.Decreases != nil {
		dec0 = u.evalSpec(u.loopEnv(p, ord), lc.Decreases.Expr).Term
		u.oblige(p, "decreases", fmt.Sprintf("loop%d:decreases-bounded", ord), u.fnProps(), Ge(dec0, IntLit(0)))
	}
	u.siteScope(fmt.Sprintf("loop%d", ord))
	outs := u.execBlock(p, body.List)
	if lc.Kernel {
		u.extractKernel(ord, head, outs)
	}
	var ends []*State
	for _, o := range outs {
		if post != nil {
			ends = append(ends, u.execStmt(o, post)...)
		} else if rng != nil {
			iv := o.vars[ivar]
			o.vars[ivar] = intV(Add(iv.Term, IntLit(1)))
			ends = append(ends, o)
		} else {
			ends = append(ends, o)
		}
	}
	for k, o := range ends {
		envE := u.loopEnv(o, ord)
		for i, inv := range lc.Invariants {
			u.oblige(o, "inv-preserve", fmt.Sprintf("loop%d:inv-preserve:%s:path%d", ord, clauseLabel(inv, i), k+1), inv.props(u.ct), u.evalSpecBool(envE, inv.Expr))
		}
		if dec0 != nil {
			d1 := u.evalSpec(envE, lc.Decreases.Expr).Term
			u.oblige(o, "decreases", fmt.Sprintf("loop%d:decreases:path%d", ord, k+1), u.fnProps(), Lt(d1, dec0))
		}
		// loop frame: components not havocked at the head must be unchanged by the body
		for name, t := range o.mem {
			if h, ok := headMem[name]; ok && h != t {
				if !headHavoc[name] {
					u.oblige(o, "modifies", fmt.Sprintf("loop%d:frame:%s:path%d", ord, compClass(name), k+1), u.framePropsFor(name), Eq(t, h))
				}
			} else if !ok {
				if init0, ok := u.initMem[name]; ok && init0 != t {
					u.oblige(o, "modifies", fmt.Sprintf("loop%d:frame:%s:path%d", ord, compClass(name), k+1), u.framePropsFor(name), Eq(t, init0))
				}
			}
		}
	}
	u.siteScope("")
	// exit path
	ex := head
	ex.Assume(Not(guardOf(ex)))
	ex.kord = ord
	if !lc.Kernel {
		ex.kord = st.kord
	}
	return []*State{ex}
}

func clauseLabel(c *Clause, i int) string {
	if c.Label != "" {
		return c.Label
	}
	return fmt.Sprint(i + 1)
}

func (u *Unit) freshLike(st *State, v Value, name string) Value {
	switch v.K {
	case KInt:
		nv := intV(u.ctx.Fresh(name, SInt))
		nv.T = v.T
		st.Assume(u.int64Range(nv.Term))
		return nv
	case KBool:
		return Value{K: KBool, T: v.T, Term: u.ctx.Fresh(name, SBool)}
	case KNum:
		nv := Value{K: KNum, T: v.T, Term: u.ctx.Fresh(name, v.Term.Sort)}
		if v.Spec != nil {
			nv.Spec = u.ctx.Fresh(name+".kind", SInt)
		}
		return nv
	case KSlice:
		nv := Value{K: KSlice, T: v.T, Elem: v.Elem, Ptr: u.ctx.Fresh(name+".ptr", SInt), Len: u.ctx.Fresh(name+".len", SInt), Cap: u.ctx.Fresh(name+".cap", SInt)}
		if _, ok := v.Elem.(*types.Slice); !ok {
			st.Assume(u.validSlice(st, nv))
		}
		return nv
	case KBuf:
		return Value{K: KBuf, T: v.T, Elem: v.Elem, Term: u.ctx.Fresh(name, SInt)}
	}
	u.errorf("freshLike: unsupported loop-carried value kind %d (%s)", v.K, name)
	return v
}

var _ = token.ADD

// loopModKinds over-approximates the classes of state a loop body can modify.
func (u *Unit) loopModKinds(nodes ...ast.Node) map[string]bool {
	kinds := map[string]bool{}
	info := u.prog.Info
	for _, n := range nodes {
		if n == nil {
			continue
		}
		ast.Inspect(n, func(x ast.Node) bool {
			switch s := x.(type) {
			case *ast.AssignStmt:
				for _, l := range s.Lhs {
					switch l := ast.Unparen(l).(type) {
					case *ast.IndexExpr:
						kinds["H"] = true
					case *ast.SelectorExpr:
						_ = l
						kinds["hdr"] = true
					case *ast.StarExpr:
						kinds["H"], kinds["hdr"] = true, true
					}
				}
			case *ast.IncDecStmt:
				if _, ok := ast.Unparen(s.X).(*ast.Ident); !ok {
					kinds["H"], kinds["hdr"] = true, true
				}
			case *ast.CallExpr:
				if tv, ok := info.Types[s.Fun]; ok && tv.IsType() {
					return true
				}
				var obj types.Object
				switch f := ast.Unparen(s.Fun).(type) {
				case *ast.Ident:
					obj = info.Uses[f]
				case *ast.IndexExpr:
					if id, ok := f.X.(*ast.Ident); ok {
						obj = info.Uses[id]
					}
				case *ast.SelectorExpr:
					if sel, ok := info.Selections[f]; ok {
						obj = sel.Obj()
					} else {
						obj = info.Uses[f.Sel]
					}
				}
				switch o := obj.(type) {
				case *types.Builtin:
					switch o.Name() {
					case "append", "make", "new":
						kinds["H"], kinds["brk"], kinds["allocs"] = true, true, true
					case "copy", "clear":
						kinds["H"] = true
					}
				case *types.Func:
					if fi := u.prog.ByObj[o.Origin()]; fi != nil {
						if ct := u.cf.Funcs[fi.Key]; ct != nil {
							for m := range ct.Modifies {
								cls := m
								if i := indexByte(m, '('); i >= 0 {
									cls = m[:i]
								}
								if cls == "newhdr" {
									cls = "hdr"
								}
								kinds[cls] = true
							}
							return true
						}
					}
					if o.Pkg() != nil && (o.Pkg().Path() == "math" || o.Pkg().Path() == "unsafe") {
						return true
					}
					// unknown callee: anything
					for _, k := range []string{"H", "hdr", "brk", "obj", "allocs", "pool"} {
						kinds[k] = true
					}
				default:
					for _, k := range []string{"H", "hdr", "brk", "obj", "allocs", "pool"} {
						kinds[k] = true
					}
				}
			}
			return true
		})
	}
	return kinds
}

// inlineCall symbolically executes the body of a package function that has no
// contract, in the caller's state. Supported: non-recursive helpers with a
// single normal exit; panic exits propagate to the caller.
func (u *Unit) inlineCall(st *State, fi *FuncInfo, targs []types.Type, args []Value, call *ast.CallExpr) []Value {
	if u.inlineDepth > 3 || fi.Decl.Body == nil {
		u.errorf("%s: call to %s which has no contract (not inlinable)", u.pos(call), fi.Key)
		return nil
	}
	u.inlineDepth++
	defer func() { u.inlineDepth-- }()
	saveExits, saveResults, saveTsub := u.exits, u.results, u.curTsub
	u.exits, u.results = nil, nil
	tsub := map[*types.TypeParam]types.Type{}
	for k, v := range saveTsub {
		tsub[k] = v
	}
	for i, tp := range fi.TParam {
		if i < len(targs) {
			tsub[tp] = targs[i]
		}
	}
	u.curTsub = tsub
	var objs []*types.Var
	if fi.Sig.Recv() != nil {
		objs = append(objs, fi.Sig.Recv())
	}
	for i := 0; i < fi.Sig.Params().Len(); i++ {
		objs = append(objs, fi.Sig.Params().At(i))
	}
	for i, o := range objs {
		if i < len(args) {
			st.vars[o] = args[i]
		}
	}
	for i := 0; i < fi.Sig.Results().Len(); i++ {
		r := fi.Sig.Results().At(i)
		if r.Name() != "" && r.Name() != "_" {
			st.vars[r] = u.zeroValue(st, r.Type())
			u.results = append(u.results, r)
		}
	}
	preAssume := len(st.assume)
	preVars := map[types.Object]bool{}
	for o := range st.vars {
		preVars[o] = true
	}
	for _, o := range objs {
		delete(preVars, o)
	}
	falls := u.execBlock(st, fi.Decl.Body.List)
	var normal []*Exit
	var panics []*Exit
	for _, e := range u.exits {
		if e.panic {
			panics = append(panics, e)
		} else {
			normal = append(normal, e)
		}
	}
	for _, f := range falls {
		var rets []Value
		for _, r := range u.results {
			rets = append(rets, f.vars[r])
		}
		normal = append(normal, &Exit{st: f, rets: rets})
	}
	u.exits, u.results, u.curTsub = append(saveExits, panics...), saveResults, saveTsub
	if len(normal) != 1 {
		if len(normal) == 0 {
			st.dead = true
			return nil
		}
		// several normal exits: join them into one state (values and state components become
		// if-then-else terms over the exits' path conditions)
		merged, rets, why := mergeExits(st, preAssume, preVars, normal, u.initMem)
		if why != "" {
			u.errorf("%s: helper %s without contract has %d normal exits that cannot be joined (%s)", u.pos(call), fi.Key, len(normal), why)
			return nil
		}
		*st = *merged
		return rets
	}
	// continue in the helper's exit state
	*st = *normal[0].st
	return normal[0].rets
}

// framePropsFor: a frame obligation on the allocation counter also belongs to
// C18, one on sample storage or headers also to C19.
func (u *Unit) framePropsFor(comp string) []string {
	props := append([]string{}, u.fnProps()...)
	switch compClass(comp) {
	case "allocs", "brk":
		if !hasProp(props, "C18") {
			props = append(props, "C18")
		}
	case "H", "ch", "dptr", "dlen", "dcap", "bd":
		if !hasProp(props, "C19") {
			props = append(props, "C19")
		}
	}
	return props
}

// mergeExits joins the normal exits of an inlined helper. Every exit state extends the state at the
// call (its assumptions are the call state's assumptions plus the path's own), so the joined state
// assumes the call state's assumptions and the disjunction of the paths' own; a value or state
// component that differs between exits becomes an if-then-else over those path conditions.
func mergeExits(at *State, preAssume int, preVars map[types.Object]bool, exits []*Exit, initMem map[string]*Term) (*State, []Value, string) {
	var conds []*Term
	for _, e := range exits {
		if len(e.st.assume) < preAssume || len(e.st.guard) != len(at.guard) {
			return nil, nil, "an exit does not extend the state at the call"
		}
		conds = append(conds, And(e.st.assume[preAssume:]...))
	}
	first := exits[0].st
	out := first.clone()
	out.assume = append(append([]*Term{}, first.assume[:preAssume]...), Or(conds...))
	// the kernel bookkeeping keeps only what all exits share
	minB := len(first.branch)
	for _, e := range exits {
		if len(e.st.branch) < minB {
			minB = len(e.st.branch)
		}
		if e.st.kord != first.kord {
			return nil, nil, "the exits ran different conversion loops"
		}
	}
	for i := 0; i < minB; i++ {
		for _, e := range exits {
			if e.st.branch[i].String() != first.branch[i].String() {
				minB = i
			}
		}
	}
	out.branch = append([]*Term{}, first.branch[:minB]...)
	iteT := func(get func(*State) *Term) (*Term, string) {
		r := get(exits[len(exits)-1].st)
		if r == nil {
			return nil, "missing component"
		}
		for i := len(exits) - 2; i >= 0; i-- {
			t := get(exits[i].st)
			if t == nil || t.Sort != r.Sort {
				return nil, fmt.Sprintf("components of different sorts: %q / %q", func() string { if t == nil { return "<nil>" }; return t.Sort }(), r.Sort)
			}
			if t.String() != r.String() {
				r = Ite(conds[i], t, r)
			}
		}
		return r, ""
	}
	keys := map[string]bool{}
	for _, e := range exits {
		for k := range e.st.mem {
			keys[k] = true
		}
	}
	for k := range keys {
		k := k
		// a component an exit never touched is still its initial symbol (components are created lazily)
		t, why := iteT(func(s *State) *Term {
			if t, ok := s.mem[k]; ok {
				return t
			}
			return initMem[k]
		})
		if why != "" {
			return nil, nil, "state component " + k + ": " + why
		}
		out.mem[k] = t
	}
	var mergeVal func(vals []Value) (Value, string)
	mergeVal = func(vals []Value) (Value, string) {
		v0 := vals[0]
		same := true
		for _, v := range vals[1:] {
			if v.K != v0.K {
				return v0, "values of different kinds"
			}
			if v.String() != v0.String() {
				same = false
			}
		}
		if same && v0.K != KStruct && v0.K != KIface {
			return v0, ""
		}
		join := func(get func(Value) *Term) (*Term, string) {
			r := get(vals[len(vals)-1])
			for i := len(vals) - 2; i >= 0; i-- {
				t := get(vals[i])
				if (t == nil) != (r == nil) {
					return nil, "partially defined value"
				}
				if t == nil {
					continue
				}
				if t.Sort != r.Sort {
					return nil, "values of different sorts"
				}
				if t.String() != r.String() {
					r = Ite(conds[i], t, r)
				}
			}
			return r, ""
		}
		res := v0
		var why string
		switch v0.K {
		case KInt, KBool, KNum, KBuf, KPool, KPtrData:
			if res.Term, why = join(func(v Value) *Term { return v.Term }); why != "" {
				return v0, why
			}
			if res.Spec, why = join(func(v Value) *Term { return v.Spec }); why != "" {
				return v0, why
			}
			if v0.Inner != nil {
				return v0, "value with an attached integer"
			}
		case KSlice:
			if res.Ptr, why = join(func(v Value) *Term { return v.Ptr }); why != "" {
				return v0, why
			}
			if res.Len, why = join(func(v Value) *Term { return v.Len }); why != "" {
				return v0, why
			}
			if res.Cap, why = join(func(v Value) *Term { return v.Cap }); why != "" {
				return v0, why
			}
		case KStruct:
			res.Fields = map[string]Value{}
			for name := range v0.Fields {
				var fs []Value
				for _, v := range vals {
					f, ok := v.Fields[name]
					if !ok {
						return v0, "struct values with different fields"
					}
					fs = append(fs, f)
				}
				m, why := mergeVal(fs)
				if why != "" {
					return v0, why
				}
				res.Fields[name] = m
			}
		case KString, KUnit:
			if !same {
				return v0, "different strings"
			}
		default:
			if !same {
				return v0, "values that cannot be joined"
			}
		}
		return res, ""
	}
	out.vars = map[types.Object]Value{}
	for o := range preVars {
		var vals []Value
		for _, e := range exits {
			v, ok := e.st.vars[o]
			if !ok {
				return nil, nil, "a caller variable is missing at an exit"
			}
			vals = append(vals, v)
		}
		m, why := mergeVal(vals)
		if why != "" {
			return nil, nil, "variable " + o.Name() + ": " + why
		}
		out.vars[o] = m
	}
	var rets []Value
	for i := range exits[0].rets {
		var vals []Value
		for _, e := range exits {
			if i >= len(e.rets) {
				return nil, nil, "exits with different result counts"
			}
			vals = append(vals, e.rets[i])
		}
		m, why := mergeVal(vals)
		if why != "" {
			return nil, nil, "result: " + why
		}
		rets = append(rets, m)
	}
	return out, rets, ""
}
