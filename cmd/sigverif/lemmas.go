package main

// lemmaObligations returns the lemma obligations of a property (statements
// over contracts / extracted kernels), bounded stand-ins, and extra assumptions.
func lemmaObligations(s *Session, prop, tier string) ([]*Obligation, []interface{}, []string) {
	var obls []*Obligation
	var bounded []interface{}
	var assume []string
	if usesFrameTheory[prop] {
		obls = append(obls, frameLemmaObligations([]string{prop})...)
		obls = append(obls, hintLemmaObligations([]string{prop})...)
	}
	if prop == "C02" || prop == "C12" {
		obls = append(obls, sliceLemmaObligations([]string{prop})...)
	}
	if prop == "C10" || prop == "C11" {
		obls = append(obls, poolLemmaObligations([]string{prop})...)
	}
	switch prop {
	case "C01":
		obls = append(obls, s.conversionRoundTripLemmas()...)
	case "C05":
		obls = append(obls, s.lemmasC05()...)
	case "C06":
		obls = append(obls, s.lemmasC06()...)
	case "C07":
		obls = append(obls, s.lemmasC07()...)
	case "C17":
		obls = append(obls, s.lemmasC17()...)
	case "C08":
		obls = append(obls, s.lemmasC08()...)
		if tier == "thorough" {
			obls = append(obls, s.thoroughBitPrecise("C08", floatFixed, []string{"accuracy-positive", "accuracy-nonpositive"})...)
		}
	case "C09":
		o, b := s.lemmasC09(tier)
		obls = append(obls, o...)
		bounded = append(bounded, b...)
		if tier == "thorough" {
			obls = append(obls, s.thoroughBitPrecise("C09", fixedFloat, []string{"range", "mono", "accuracy"})...)
		}
	}
	return obls, bounded, assume
}

var usesFrameTheory = map[string]bool{"C01": true, "C02": true, "C03": true, "C04": true, "C05": true, "C10": true, "C12": true,
	"C13": true, "C14": true, "C15": true, "C18": true, "C19": true, "C20": true, "C11": true}
