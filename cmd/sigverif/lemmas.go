package main

// lemmaObligations returns the lemma obligations of a property (statements
// over contracts / extracted kernels), bounded stand-ins, and extra assumptions.
func lemmaObligations(s *Session, prop, tier string) ([]*Obligation, []interface{}, []string) {
	var obls []*Obligation
	var bounded []interface{}
	var assume []string
	if usesFrameTheory[prop] {
		obls = append(obls, frameLemmaObligations([]string{prop})...)
		obls = append(obls, hintLemmaObligations([]string{prop})...)
	}
	return obls, bounded, assume
}

var usesFrameTheory = map[string]bool{"C01": true, "C02": true, "C03": true, "C04": true, "C05": true, "C10": true, "C12": true,
	"C13": true, "C14": true, "C15": true, "C18": true, "C19": true, "C20": true, "C11": true}
