package main

import (
	"encoding/json"
	"flag"
	"fmt"
	"os"
	"path/filepath"
	"sort"
	"strconv"
	"strings"
	"sync"
	"time"
)

var (
	flagTier    = flag.String("tier", "", "quick | thorough (default: $VERIF_TIER or quick)")
	flagBudget  = flag.Int("budget", 0, "per-obligation solver budget in seconds")
	flagVerbose = flag.Bool("v", false, "verbose")
	flagKeep    = flag.Bool("keep", false, "keep SMT files")
	flagOnly    = flag.String("only", "", "substring filter on obligation names (debugging)")
	flagRepo    = flag.String("repo", "/repo", "repository directory")
)

func usage() {
	fmt.Fprintln(os.Stderr, "usage: sigverif [flags] check <Cxx> | func <Key> | list | replay <file> | selftest")
	os.Exit(2)
}

func main() {
	flag.Usage = usage
	// flags may come after the subcommand too
	args := reorderArgs(os.Args[1:])
	flag.CommandLine.Parse(args)
	rest := flag.Args()
	if len(rest) == 0 {
		usage()
	}
	repoDir = *flagRepo
	tier := *flagTier
	if tier == "" {
		tier = os.Getenv("VERIF_TIER")
	}
	if tier != "thorough" {
		tier = "quick"
	}
	switch rest[0] {
	case "check":
		if len(rest) < 2 {
			usage()
		}
		os.Exit(cmdCheck(rest[1], tier))
	case "func":
		if len(rest) < 2 {
			usage()
		}
		os.Exit(cmdFunc(rest[1], tier))
	case "kernel":
		s, err := newSession()
		if err != nil {
			fmt.Fprintln(os.Stderr, err)
			os.Exit(2)
		}
		fi, ct := s.prog.Funcs[rest[1]], s.cf.Funcs[rest[1]]
		for _, in := range s.instsFor(fi, ct) {
			if len(rest) > 2 && in.Name != rest[2] {
				continue
			}
			ki := s.preciseKernel(rest[1], in)
			if ki.OK {
				fmt.Printf("%s[%s]: K(x) = %s\n", rest[1], in.Name, ki.Body)
			} else {
				fmt.Printf("%s[%s]: NO KERNEL: %s %v\n", rest[1], in.Name, ki.Why, ki.Errs)
			}
		}
		os.Exit(0)
	case "list":
		os.Exit(cmdList())
	case "lemmas":
		initWork()
		obls := append(frameLemmaObligations(nil), hintLemmaObligations(nil)...)
		solveAll(obls, tier)
		rc := 0
		for _, o := range obls {
			fmt.Printf("%-40s %-8s %-14s %.2fs\n", o.Name, o.Res.Status, o.Res.Backend, o.Res.TimeS)
			if !o.ok() {
				rc = 1
			}
		}
		cleanupWork()
		os.Exit(rc)
	case "replay":
		if len(rest) < 2 {
			usage()
		}
		os.Exit(cmdReplay(rest[1]))
	default:
		usage()
	}
}

func reorderArgs(a []string) []string {
	var flags, pos []string
	for i := 0; i < len(a); i++ {
		if strings.HasPrefix(a[i], "-") {
			flags = append(flags, a[i])
			if !strings.Contains(a[i], "=") && i+1 < len(a) && !strings.HasPrefix(a[i+1], "-") {
				name := strings.TrimLeft(a[i], "-")
				if f := flag.Lookup(name); f != nil {
					if _, isBool := f.Value.(interface{ IsBoolFlag() bool }); !isBool {
						flags = append(flags, a[i+1])
						i++
					}
				}
			}
		} else {
			pos = append(pos, a[i])
		}
	}
	return append(flags, pos...)
}

func budget(tier string) int {
	if *flagBudget > 0 {
		return *flagBudget
	}
	if tier == "thorough" {
		return 300
	}
	return 90
}

func seed() int {
	s, _ := strconv.Atoi(os.Getenv("VERIF_SEED"))
	return s
}

// ---- running units -----------------------------------------------------------------------

type Session struct {
	prog *Program
	cf   *ContractFile
	errs []string
	mu   sync.Mutex
}

func newSession() (*Session, error) {
	prog, err := loadProgram()
	if err != nil {
		return nil, err
	}
	if prog.ContractText == "" {
		return nil, fmt.Errorf("contract file verif_contracts.go not found in %s (build tag verif)", repoDir)
	}
	cf, err := parseContracts(prog.ContractText)
	if err != nil {
		return nil, fmt.Errorf("contract file: %v", err)
	}
	return &Session{prog: prog, cf: cf}, nil
}

func hasProp(ps []string, p string) bool {
	for _, x := range ps {
		if x == p {
			return true
		}
	}
	return false
}

// contractServes: does the contract have any clause or function-level label for prop?
func contractServes(ct *Contract, prop string) bool {
	if hasProp(ct.Props, prop) {
		return true
	}
	if (prop == "C18" || prop == "C19") && !ct.Trusted {
		return true // every function carries the allocation-effect obligation
	}
	for _, cs := range [][]*Clause{ct.Requires, ct.Ensures} {
		for _, c := range cs {
			if hasProp(c.Props, prop) {
				return true
			}
		}
	}
	if ct.Panics != nil && hasProp(ct.Panics.Props, prop) {
		return true
	}
	for _, l := range ct.Loops {
		for _, c := range l.Invariants {
			if hasProp(c.Props, prop) {
				return true
			}
		}
	}
	for _, v := range ct.Variants {
		if v.Label == prop {
			return true
		}
	}
	return false
}

func (s *Session) instsFor(fi *FuncInfo, ct *Contract) []*Inst {
	named := false
	var only []string
	for _, x := range ct.Insts {
		if x == "named" {
			named = true
		} else {
			only = append(only, x)
		}
	}
	all := s.prog.instantiations(fi, named)
	if len(only) == 0 {
		return all
	}
	var out []*Inst
	for _, in := range all {
		ok := true
		for _, a := range in.Args {
			if !hasProp(only, typeName(a)) {
				ok = false
			}
		}
		if ok {
			out = append(out, in)
		}
	}
	return out
}

// runFunc verifies every instantiation of one function; returns obligations.
func (s *Session) runFunc(key string, mode string) ([]*Obligation, []*Unit) {
	fi := s.prog.Funcs[key]
	ct := s.cf.Funcs[key]
	if fi == nil || ct == nil {
		return nil, nil
	}
	if mode == "" {
		mode = ct.Mode
	}
	var obls []*Obligation
	var units []*Unit
	type job struct {
		in       *Inst
		poolCase string
		variant  *Clause
	}
	runOne := func(j job) (*Unit, bool) {
		u := newUnit(s.prog, s.cf, fi, ct, j.in, mode)
		u.poolCase = j.poolCase
		u.variant = j.variant
		if u.poolCase == "" {
			u.poolCase = "hit"
		}
		func() {
			defer func() {
				if r := recover(); r != nil {
					u.errorf("generator panic: %v", r)
					if *flagVerbose {
						panic(r)
					}
				}
			}()
			u.verifyFunc()
		}()
		u.finish()
		if j.variant != nil {
			// keep safety obligations and the clauses labelled with the variant's property
			// every obligation of the variant run belongs to the variant's property
			// (effect obligations keep C18 / C19 as well)
			for _, o := range u.obls {
				np := []string{j.variant.Label}
				for _, p := range []string{"C18", "C19"} {
					if hasProp(o.Props, p) && (o.Kind == "allocs" || o.Kind == "writes" || o.Kind == "writes-nothing" || o.Kind == "reads") {
						np = append(np, p)
					}
				}
				o.Props = np
				o.Name += "@" + j.variant.Label
			}
		}
		again := false
		if u.sawPoolGet {
			for _, o := range u.obls {
				i := strings.Index(o.Name, "/")
				o.Name = o.Name[:i] + "/pool-" + u.poolCase + ":" + o.Name[i+1:]
			}
			again = j.poolCase == ""
		}
		return u, again
	}
	var jobs []job
	for _, in := range s.instsFor(fi, ct) {
		jobs = append(jobs, job{in, "", nil})
		for _, v := range ct.Variants {
			if variantFilter == "" || variantFilter == v.Label {
				jobs = append(jobs, job{in, "", v})
			}
		}
	}
	results := make([][]*Unit, len(jobs))
	var wg sync.WaitGroup
	sem := make(chan struct{}, 16)
	for k := range jobs {
		k := k
		wg.Add(1)
		sem <- struct{}{}
		go func() {
			defer wg.Done()
			defer func() { <-sem }()
			u, again := runOne(jobs[k])
			results[k] = append(results[k], u)
			if again {
				u2, _ := runOne(job{jobs[k].in, "miss", jobs[k].variant})
				results[k] = append(results[k], u2)
			}
		}()
	}
	wg.Wait()
	for _, us := range results {
		for _, u := range us {
			obls = append(obls, u.obls...)
			units = append(units, u)
			for _, e := range u.errs {
				s.errs = append(s.errs, u.name()+": "+e)
			}
		}
	}
	return obls, units
}

// finish adds theory axioms to every obligation of the unit.
func (u *Unit) finish() {
	var extra []*Term
	if u.theory == "axioms" {
		extra = append(extra, u.frameAxioms()...)
	}
	if len(u.rndArgs) > 0 || len(u.rndArgs32) > 0 {
		extra = append(extra, u.rfAxioms(u.rndHints)...)
	}
	if inv := u.modelInvariants(nil); !isTrue(inv) {
		u.defs = append(u.defs, inv)
	}
	for _, o := range u.obls {
		if o.Cover {
			o.Assume = append(append([]*Term{}, u.defs...), o.Assume...)
			// satisfiability of quantified formulas is out of reach: the vacuity
			// check keeps the quantifier-free part of the precondition only
			var qf []*Term
			for _, a := range o.Assume {
				if !hasQuantifier(a) {
					qf = append(qf, a)
				}
			}
			o.Assume = qf
			continue
		}
		if len(u.defs) > 0 {
			o.Assume = append(append([]*Term{}, u.defs...), o.Assume...)
		}
		if len(extra) > 0 && !o.NoAxioms && usesTheory(o, u.ctx) {
			o.Axioms = extra
		}
		if len(u.unbound) > 0 && o.Note == "" {
			o.Note = strings.Join(u.unbound, "; ")
		}
	}
	for _, msg := range u.unbound {
		u.obls = append(u.obls, &Obligation{Name: u.name() + "/contract-binds", Kind: "contract-binds", Props: u.ct.Props,
			Goal: False, Ctx: u.ctx, Fn: u.fn.Key, InstName: u.inst.Name, Note: msg})
	}
}

// solveAll discharges obligations in parallel.
func solveAll(obls []*Obligation, tier string) {
	b := budget(tier)
	// wave 1: one representative per (function, clause); wave 2: the other
	// instantiations, which start with the tier that worked for the representative
	seen := map[string]bool{}
	var w1, w2 []*Obligation
	for _, o := range obls {
		k := o.Fn + "/" + labelOf(o.Name)
		if seen[k] {
			w2 = append(w2, o)
		} else {
			seen[k] = true
			w1 = append(w1, o)
		}
	}
	for _, wave := range [][]*Obligation{w1, w2} {
		var wg sync.WaitGroup
		for _, o := range wave {
			o := o
			wg.Add(1)
			go func() {
				defer wg.Done()
				defer func() {
					// an obligation the machinery cannot even pose (malformed term after an
					// unsupported construct) is undecided, never a crash and never a pass
					if r := recover(); r != nil {
						o.Res = &SolveResult{Status: "error", Backend: "none", Raw: fmt.Sprintf("obligation could not be posed: %v", r)}
					}
				}()
				solveOne(o, b, tier == "thorough")
			}()
		}
		wg.Wait()
	}
}

func solveOne(o *Obligation, budgetS int, cross bool) {
	if o.Bounded && o.Res != nil {
		return
	}
	if o.Goal != nil && isTrue(o.Goal) {
		o.Res = &SolveResult{Status: "unsat", Backend: "syntactic", TimeS: 0}
		return
	}
	if o.Goal != nil && isFalse(o.Goal) && len(o.Assume) == 0 {
		o.Res = &SolveResult{Status: "sat", Backend: "syntactic", TimeS: 0, Model: map[string]string{}}
		return
	}
	logic := o.Logic
	if logic == "" {
		logic = "ALL"
	}
	if o.Cover {
		o.Txt = Script(o.Ctx, logic, o.Assume, nil, true)
		o.Res = solve(o.Txt, budgetS, false)
		return
	}
	// Tiered solving: dropping assumptions is sound for a proof, and small
	// queries are the stable ones. Tier 1: quantifier-free assumptions only;
	// tier 2: everything but the theory axioms; tier 3: everything.
	var qf []*Term
	nq := 0
	for _, a := range o.Assume {
		if hasQuantifier(a) {
			nq++
		} else {
			qf = append(qf, a)
		}
	}
	type tier struct {
		name   string
		assume []*Term
		budget int
	}
	short := 2
	if budgetS < short {
		short = budgetS
	}
	var tiers []tier
	if nq > 0 && !hasQuantifier(o.Goal) {
		tiers = append(tiers, tier{"quantifier-free", qf, short})
	}
	if len(o.Axioms) > 0 {
		tiers = append(tiers, tier{"no-axioms", o.Assume, short * 2})
		tiers = append(tiers, tier{"full", append(append([]*Term{}, o.Axioms...), o.Assume...), budgetS})
	} else {
		tiers = append(tiers, tier{"full", o.Assume, budgetS})
	}
	// start with the tier that proved the same clause for another instantiation
	gkey := o.Fn + "/" + labelOf(o.Name)
	tierMu.Lock()
	hint := tierHint[gkey]
	failedBefore := failHint[gkey]
	tierMu.Unlock()
	if failedBefore {
		// the representative instantiation of this clause already failed without a proof:
		// the siblings get a short budget (they are reported under the same violation)
		for i := range tiers {
			if tiers[i].budget > 2 {
				tiers[i].budget = 2
			}
		}
	}
	if hint != "" {
		for i, t := range tiers {
			if t.name == hint && i > 0 {
				t.budget = budgetS
				tiers = append([]tier{t}, append(append([]tier{}, tiers[:i]...), tiers[i+1:]...)...)
				break
			}
		}
	}
	total := 0.0
	for _, t := range tiers {
		txt := Script(o.Ctx, logic, t.assume, o.Goal, true)
		r := solve(txt, t.budget, cross && t.name == "full")
		total += r.TimeS
		o.Res, o.Txt, o.Tier = r, txt, t.name
		if r.Status == "unsat" && r.Cross == "" {
			tierMu.Lock()
			tierHint[gkey] = t.name
			tierMu.Unlock()
			return
		}
	}
	tierMu.Lock()
	failHint[gkey] = true
	tierMu.Unlock()
	// not proved: report the result of the full query
	for _, t := range tiers {
		if t.name == "full" {
			txt := Script(o.Ctx, logic, t.assume, o.Goal, true)
			o.Res, o.Txt, o.Tier = solve(txt, t.budget, false), txt, "full"
		}
	}
}

// variantFilter restricts variant runs to one property ("" = all).
var variantFilter string

var (
	tierMu   sync.Mutex
	tierHint = map[string]string{}
	failHint = map[string]bool{}
)

// ok reports whether the obligation is discharged.
func (o *Obligation) ok() bool {
	if o.Res == nil {
		return false
	}
	if o.Cover {
		return o.Res.Status == "sat"
	}
	return o.Res.Status == "unsat" && o.Res.Cross == ""
}

// ---- commands ------------------------------------------------------------------------------

func cmdList() int {
	s, err := newSession()
	if err != nil {
		fmt.Fprintln(os.Stderr, "error:", err)
		return 2
	}
	for _, k := range s.prog.funcKeys() {
		_, has := s.cf.Funcs[k]
		fmt.Printf("%-40s contract=%v\n", k, has)
	}
	return 0
}

func cmdFunc(key, tier string) int {
	initWork()
	defer func() {
		if !*flagKeep {
			cleanupWork()
		}
	}()
	s, err := newSession()
	if err != nil {
		fmt.Fprintln(os.Stderr, "error:", err)
		return 2
	}
	obls, _ := s.runFunc(key, "")
	obls = filterObls(obls)
	solveAll(obls, tier)
	bad := 0
	for _, o := range obls {
		st := "ok"
		if !o.ok() {
			st = "FAIL"
			bad++
		}
		if *flagVerbose || !o.ok() {
			fmt.Printf("%-5s %-90s %-8s %-14s %.2fs %s\n", st, o.Name, o.Res.Status, o.Res.Backend, o.Res.TimeS, o.Note)
			if !o.ok() && *flagVerbose {
				fmt.Println(o.Txt)
				fmt.Println(o.Res.Raw)
			}
		}
	}
	for _, e := range s.errs {
		fmt.Println("ERROR:", e)
	}
	fmt.Printf("%s: %d obligations, %d failed, %d generator errors\n", key, len(obls), bad, len(s.errs))
	if bad > 0 || len(s.errs) > 0 {
		return 1
	}
	return 0
}

func filterObls(obls []*Obligation) []*Obligation {
	if *flagOnly == "" {
		return obls
	}
	var out []*Obligation
	for _, o := range obls {
		if strings.Contains(o.Name, *flagOnly) {
			out = append(out, o)
		}
	}
	return out
}

// ---- evidence ---------------------------------------------------------------------------------

type Evidence struct {
	PropertyID  string                 `json:"property_id"`
	Tier        string                 `json:"tier"`
	Seed        int                    `json:"seed"`
	Level       string                 `json:"level"`
	Coverage    map[string]interface{} `json:"coverage"`
	Assumptions []string               `json:"assumptions"`
	WallS       float64                `json:"wall_s"`
	Violations  int                    `json:"violations"`
}

func writeEvidence(prop string, ev *Evidence) {
	dir := "/verif/evidence"
	if repoDir != "/repo" || *flagOnly != "" {
		// runs against a scratch copy (mutants, seeded changes) must not overwrite the evidence of the real tree
		dir = "/verif/work/evidence-scratch"
	}
	os.MkdirAll(dir, 0o755)
	b, _ := json.MarshalIndent(ev, "", " ")
	os.WriteFile(filepath.Join(dir, prop+".json"), append(b, '\n'), 0o644)
}

func sortedSet(m map[string]bool) []string {
	var ks []string
	for k := range m {
		ks = append(ks, k)
	}
	sort.Strings(ks)
	return ks
}

var _ = time.Now

func hasQuantifier(t *Term) bool {
	if t == nil {
		return false
	}
	if t.Op == "forall" || t.Op == "exists" {
		return true
	}
	for _, a := range t.Args {
		if hasQuantifier(a) {
			return true
		}
	}
	return false
}

func usesTheory(o *Obligation, ctx *Ctx) bool {
	consts := map[string]string{}
	funs := map[string]bool{}
	all := append([]*Term{}, o.Assume...)
	if o.Goal != nil {
		all = append(all, o.Goal)
	}
	collect(all, consts, funs, ctx)
	for _, f := range []string{"bi", "cdiv", "fdiv", "chanOf", "frameOf", "rnd", "rnd32"} {
		if funs[f] {
			return true
		}
	}
	return false
}

func sortStrings(s []string) { sort.Strings(s) }
