package main

import (
	"encoding/json"
	"fmt"
	"os"
	"os/exec"
	"path/filepath"
	"time"
)

type boundedResult struct {
	Check      string   `json:"check"`
	Domain     string   `json:"domain"`
	Evaluated  uint64   `json:"evaluations"`
	Exhaustive bool     `json:"exhaustive"`
	Failures   uint64   `json:"failures"`
	Examples   []string `json:"examples"`
	WallS      float64  `json:"wall_s"`
	Label      string   `json:"label"`
}

// runBounded builds the stand-in harness against the repository under check
// (scratch module outside /repo and /verif, removed afterwards) and runs it.
func runBounded(harness string, args ...string) ([]boundedResult, error) {
	dir, err := os.MkdirTemp("/var/tmp", "sigverif-bounded-")
	if err != nil {
		return nil, err
	}
	defer os.RemoveAll(dir)
	src, err := os.ReadFile(filepath.Join("/verif/bounded", harness, "main.go"))
	if err != nil {
		return nil, err
	}
	os.WriteFile(filepath.Join(dir, "main.go"), src, 0o644)
	gomod := fmt.Sprintf("module bounded\n\ngo 1.21\n\nrequire pipelined.dev/signal v0.0.0\n\nrequire golang.org/x/exp v0.0.0-20230817173708-d852ddb80c63 // indirect\n\nreplace pipelined.dev/signal => %s\n", repoDir)
	os.WriteFile(filepath.Join(dir, "go.mod"), []byte(gomod), 0o644)
	if sum, err := os.ReadFile(filepath.Join(repoDir, "go.sum")); err == nil {
		os.WriteFile(filepath.Join(dir, "go.sum"), sum, 0o644)
	}
	env := append(os.Environ(), "GOFLAGS=-mod=mod", "GOPROXY=off", "GOSUMDB=off", "GOTOOLCHAIN=local")
	build := exec.Command("go", "build", "-o", filepath.Join(dir, "harness"), ".")
	build.Dir = dir
	build.Env = env
	if out, err := build.CombinedOutput(); err != nil {
		return nil, fmt.Errorf("building bounded harness: %v\n%s", err, out)
	}
	t0 := time.Now()
	run := exec.Command(filepath.Join(dir, "harness"), args...)
	run.Dir = dir
	out, err := run.Output()
	if err != nil {
		return nil, fmt.Errorf("running bounded harness: %v", err)
	}
	var res []boundedResult
	if err := json.Unmarshal(out, &res); err != nil {
		return nil, err
	}
	for i := range res {
		res[i].WallS = time.Since(t0).Seconds()
		res[i].Label = "cross-check by exhaustive native execution of the real code (redundant with the exact-model and bit-precise round-trip lemmas; not a proof obligation, not counted)"
	}
	return res, nil
}
