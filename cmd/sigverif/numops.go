package main

import (
	"fmt"
	"go/token"
	"go/types"
	"math/big"
	"strings"
)

func isAbs(t *Term) bool { return strings.HasPrefix(t.Sort, "U_") }
func isBV(t *Term) bool  { return strings.HasPrefix(t.Sort, "(_ BitVec") }
func isFP(t *Term) bool  { return strings.HasPrefix(t.Sort, "(_ FloatingPoint") }

func bvWidth(sort string) int {
	var w int
	fmt.Sscanf(sort, "(_ BitVec %d)", &w)
	return w
}

var rne = &Term{Op: "RNE", Sort: "RoundingMode"}
var rtz = &Term{Op: "RTZ", Sort: "RoundingMode"}

// numBinary implements Go binary operators on numeric (non-index) values.
// typ is the concrete operand type. Returns value and an optional failure
// condition (division by zero).
func (u *Unit) numBinary(op token.Token, a, b Value, typ types.Type) (Value, *Term) {
	x, y := a.Term, b.Term
	res := func(t *Term) Value { return Value{K: KNum, T: typ, Term: t} }
	boolv := func(t *Term) Value { return Value{K: KBool, T: types.Typ[types.Bool], Term: t} }
	isCmp := op == token.LSS || op == token.LEQ || op == token.GTR || op == token.GEQ || op == token.EQL || op == token.NEQ
	if u.mode == "realfloat" && x.Sort == SReal {
		return u.rfBinary(op, a, b, typ)
	}
	switch {
	case isAbs(x) || isAbs(y):
		if x.Sort != y.Sort {
			u.errorf("numBinary: mixed abstract sorts %s %s", x.Sort, y.Sort)
			return res(x), nil
		}
		sn := x.Sort[2:]
		if isCmp {
			if (op == token.EQL || op == token.NEQ) && !isFloatT(typ) {
				if op == token.EQL {
					return boolv(Eq(x, y)), nil
				}
				return boolv(Ne(x, y)), nil
			}
			return boolv(u.ctx.App("cmp_"+opName(op)+"_"+sn, SBool, x, y)), nil
		}
		var fail *Term
		if (op == token.QUO || op == token.REM) && !isFloatT(typ) {
			fail = Eq(y, u.zeroOf(typ, true).Term)
		}
		return res(u.ctx.App("op_"+opName(op)+"_"+sn, x.Sort, x, y)), fail
	case isBV(x):
		w := bvWidth(x.Sort)
		uns := isUnsignedT(typ)
		if isCmp {
			var t *Term
			if xv, _, ok := bvLitVal(x); ok {
				if yv, _, ok2 := bvLitVal(y); ok2 {
					// fold literal comparisons (bit depths)
					if !uns {
						xv, yv = toSigned(xv, w), toSigned(yv, w)
					}
					c := xv.Cmp(yv)
					r := false
					switch op {
					case token.LSS:
						r = c < 0
					case token.LEQ:
						r = c <= 0
					case token.GTR:
						r = c > 0
					case token.GEQ:
						r = c >= 0
					case token.EQL:
						r = c == 0
					case token.NEQ:
						r = c != 0
					}
					if r {
						return boolv(True), nil
					}
					return boolv(False), nil
				}
			}
			switch op {
			case token.EQL:
				t = Eq(x, y)
			case token.NEQ:
				t = Ne(x, y)
			case token.LSS:
				t = mk(pick(uns, "bvult", "bvslt"), SBool, x, y)
			case token.LEQ:
				t = mk(pick(uns, "bvule", "bvsle"), SBool, x, y)
			case token.GTR:
				t = mk(pick(uns, "bvugt", "bvsgt"), SBool, x, y)
			case token.GEQ:
				t = mk(pick(uns, "bvuge", "bvsge"), SBool, x, y)
			}
			return boolv(t), nil
		}
		var fail *Term
		var t *Term
		if xv, _, ok := bvLitVal(x); ok && (op == token.ADD || op == token.SUB) {
			if yv, _, ok2 := bvLitVal(y); ok2 {
				if op == token.ADD {
					return res(BVLit(new(big.Int).Add(xv, yv), w)), nil
				}
				return res(BVLit(new(big.Int).Sub(xv, yv), w)), nil
			}
		}
		switch op {
		case token.ADD:
			t = mk("bvadd", x.Sort, x, y)
		case token.SUB:
			t = mk("bvsub", x.Sort, x, y)
		case token.MUL:
			t = mk("bvmul", x.Sort, x, y)
		case token.QUO:
			t = mk(pick(uns, "bvudiv", "bvsdiv"), x.Sort, x, y)
			fail = Eq(y, BVLit64(0, w))
		case token.REM:
			t = mk(pick(uns, "bvurem", "bvsrem"), x.Sort, x, y)
			fail = Eq(y, BVLit64(0, w))
		case token.AND:
			t = mk("bvand", x.Sort, x, y)
		case token.OR:
			t = mk("bvor", x.Sort, x, y)
		case token.XOR:
			t = mk("bvxor", x.Sort, x, y)
		case token.AND_NOT:
			t = mk("bvand", x.Sort, x, mk("bvnot", x.Sort, y))
		default:
			u.errorf("numBinary: unsupported BV operator %s", op)
			t = x
		}
		return res(t), fail
	case isFP(x):
		if isCmp {
			var t *Term
			switch op {
			case token.EQL:
				t = mk("fp.eq", SBool, x, y)
			case token.NEQ:
				t = Not(mk("fp.eq", SBool, x, y))
			case token.LSS:
				t = mk("fp.lt", SBool, x, y)
			case token.LEQ:
				t = mk("fp.leq", SBool, x, y)
			case token.GTR:
				t = mk("fp.gt", SBool, x, y)
			case token.GEQ:
				t = mk("fp.geq", SBool, x, y)
			}
			return boolv(t), nil
		}
		var t *Term
		switch op {
		case token.ADD:
			t = mk("fp.add", x.Sort, rne, x, y)
		case token.SUB:
			t = mk("fp.sub", x.Sort, rne, x, y)
		case token.MUL:
			t = mk("fp.mul", x.Sort, rne, x, y)
		case token.QUO:
			t = mk("fp.div", x.Sort, rne, x, y)
		default:
			u.errorf("numBinary: unsupported FP operator %s", op)
			t = x
		}
		return res(t), nil
	}
	u.errorf("numBinary: unsupported operand sort %s", x.Sort)
	return res(x), nil
}

func toSigned(v *big.Int, w int) *big.Int {
	half := new(big.Int).Lsh(big.NewInt(1), uint(w-1))
	if v.Cmp(half) >= 0 {
		return new(big.Int).Sub(v, new(big.Int).Lsh(big.NewInt(1), uint(w)))
	}
	return v
}

func pick(c bool, a, b string) string {
	if c {
		return a
	}
	return b
}

func opName(op token.Token) string {
	switch op {
	case token.ADD:
		return "add"
	case token.SUB:
		return "sub"
	case token.MUL:
		return "mul"
	case token.QUO:
		return "div"
	case token.REM:
		return "rem"
	case token.LSS:
		return "lt"
	case token.LEQ:
		return "le"
	case token.GTR:
		return "gt"
	case token.GEQ:
		return "ge"
	case token.EQL:
		return "eq"
	case token.NEQ:
		return "ne"
	case token.SHL:
		return "shl"
	case token.SHR:
		return "shr"
	case token.AND:
		return "and"
	case token.OR:
		return "or"
	case token.XOR:
		return "xor"
	}
	return op.String()
}

// numShift implements x << c and x >> c; typ is x's type, ctyp the count's.
func (u *Unit) numShift(op token.Token, x, c Value, typ, ctyp types.Type) Value {
	if isAbs(x.Term) || isAbs(c.Term) {
		return Value{K: KNum, T: typ, Term: u.ctx.App("op_"+opName(op)+"_"+strings.TrimPrefix(x.Term.Sort, "U_")+"_"+sanitize(c.Term.Sort), x.Term.Sort, x.Term, c.Term)}
	}
	if !isBV(x.Term) || !isBV(c.Term) {
		u.errorf("numShift: unsupported operand sorts %s %s", x.Term.Sort, c.Term.Sort)
		return x
	}
	w := bvWidth(x.Term.Sort)
	cw := bvWidth(c.Term.Sort)
	cnt := c.Term
	switch {
	case cw < w:
		cnt = mk(fmt.Sprintf("(_ zero_extend %d)", w-cw), SBV(w), cnt)
	case cw > w:
		// saturate the count at w
		big_ := mk("bvuge", SBool, cnt, BVLit64(int64(w), cw))
		cnt = Ite(big_, BVLit64(int64(w), w), mk(fmt.Sprintf("(_ extract %d 0)", w-1), SBV(w), cnt))
	}
	var t *Term
	if op == token.SHL {
		t = mk("bvshl", x.Term.Sort, x.Term, cnt)
	} else if isUnsignedT(typ) {
		t = mk("bvlshr", x.Term.Sort, x.Term, cnt)
	} else {
		t = mk("bvashr", x.Term.Sort, x.Term, cnt)
	}
	return Value{K: KNum, T: typ, Term: t}
}

func (u *Unit) numNeg(x Value, typ types.Type) Value {
	switch {
	case u.mode == "realfloat" && x.Term.Sort == SReal:
		// kind: swap +inf/-inf
		k := x.Spec
		nk := Ite(Eq(k, IntLit(1)), IntLit(2), Ite(Eq(k, IntLit(2)), IntLit(1), k))
		return Value{K: KNum, T: typ, Term: mk("-", SReal, x.Term), Spec: nk}
	case isAbs(x.Term):
		return Value{K: KNum, T: typ, Term: u.ctx.App("op_neg_"+x.Term.Sort[2:], x.Term.Sort, x.Term)}
	case isBV(x.Term):
		return Value{K: KNum, T: typ, Term: mk("bvneg", x.Term.Sort, x.Term)}
	case isFP(x.Term):
		return Value{K: KNum, T: typ, Term: mk("fp.neg", x.Term.Sort, x.Term)}
	}
	u.errorf("numNeg: unsupported sort")
	return x
}

// ---- conversions ------------------------------------------------------------------

// convName is the uninterpreted conversion function between two sorts, shared
// by the executor and the spec function conv(S, D, x).
func convName(from, to string) string {
	return "conv_" + sanitize(strings.TrimPrefix(from, "U_")) + "_to_" + sanitize(strings.TrimPrefix(to, "U_"))
}

// convertNum converts numeric value v (concrete type v.T) to concrete type
// `to`, whose static type is a type parameter iff toParam.
func (u *Unit) convertNum(st *State, v Value, to types.Type, toParam bool) Value {
	from := v.T
	dsort := u.numSort(to, toParam)
	if u.mode == "realfloat" {
		return u.rfConvert(st, v, to)
	}
	if types.Identical(from, to) && v.Term.Sort == dsort {
		return Value{K: KNum, T: to, Term: v.Term}
	}
	if isAbs(v.Term) || strings.HasPrefix(dsort, "U_") {
		if v.Term.Sort == dsort {
			// same abstract sort = same concrete type
			return Value{K: KNum, T: to, Term: v.Term}
		}
		return Value{K: KNum, T: to, Term: u.ctx.App(convName(v.Term.Sort, dsort), dsort, v.Term)}
	}
	return Value{K: KNum, T: to, Term: u.preciseConv(v.Term, from, to)}
}

// preciseConv: bit-precise Go conversion semantics on gc/amd64.
func (u *Unit) preciseConv(x *Term, from, to types.Type) *Term {
	fw, tw := u.widthOf(from), u.widthOf(to)
	switch {
	case isIntegerT(from) && isIntegerT(to):
		switch {
		case fw == tw:
			return x
		case fw > tw:
			return mk(fmt.Sprintf("(_ extract %d 0)", tw-1), SBV(tw), x)
		case isUnsignedT(from):
			return mk(fmt.Sprintf("(_ zero_extend %d)", tw-fw), SBV(tw), x)
		default:
			return mk(fmt.Sprintf("(_ sign_extend %d)", tw-fw), SBV(tw), x)
		}
	case isIntegerT(from) && isFloatT(to):
		eb, sb := fpParams(to)
		if isUnsignedT(from) {
			return mk(fmt.Sprintf("(_ to_fp_unsigned %d %d)", eb, sb), fpSort(to), rne, x)
		}
		return mk(fmt.Sprintf("(_ to_fp %d %d)", eb, sb), fpSort(to), rne, x)
	case isFloatT(from) && isFloatT(to):
		if fw == tw {
			return x
		}
		eb, sb := fpParams(to)
		return mk(fmt.Sprintf("(_ to_fp %d %d)", eb, sb), fpSort(to), rne, x)
	case isFloatT(from) && isIntegerT(to):
		return u.floatToInt(x, from, to)
	}
	u.errorf("preciseConv: unsupported %s -> %s", from, to)
	return x
}

func fpParams(t types.Type) (int, int) {
	if basicOf(t).Kind() == types.Float32 {
		return 8, 24
	}
	return 11, 53
}

// floatToInt models gc/amd64 (DESIGN §3.3): the source is widened exactly to
// binary64; CVTTSD2SL / CVTTSD2SQ with the "integer indefinite" value on NaN,
// infinities and out-of-range inputs, then truncation to the destination width.
func (u *Unit) floatToInt(x *Term, from, to types.Type) *Term {
	d := x
	f64 := "(_ FloatingPoint 11 53)"
	if basicOf(from).Kind() == types.Float32 {
		d = mk("(_ to_fp 11 53)", f64, rne, x)
	}
	two := func(k int) *Term { return fpConst(f64, new(big.Int).Lsh(big.NewInt(1), uint(k)).String()) }
	negTwo := func(k int) *Term {
		return fpConst(f64, new(big.Int).Neg(new(big.Int).Lsh(big.NewInt(1), uint(k))).String())
	}
	cvtq := func(v *Term) *Term { // CVTTSD2SQ
		inr := And(mk("fp.geq", SBool, v, negTwo(63)), mk("fp.lt", SBool, v, two(63)))
		return Ite(inr, mk("(_ fp.to_sbv 64)", SBV(64), rtz, v), BVLit(new(big.Int).Lsh(big.NewInt(1), 63), 64))
	}
	cvtl := func(v *Term) *Term { // CVTTSD2SL
		lo := fpConst(f64, new(big.Int).Neg(new(big.Int).Add(new(big.Int).Lsh(big.NewInt(1), 31), big.NewInt(1))).String())
		inr := And(mk("fp.gt", SBool, v, lo), mk("fp.lt", SBool, v, two(31)))
		return Ite(inr, mk("(_ fp.to_sbv 32)", SBV(32), rtz, v), BVLit(new(big.Int).Lsh(big.NewInt(1), 31), 32))
	}
	tw := u.widthOf(to)
	uns := isUnsignedT(to)
	switch {
	case !uns && tw == 64:
		return cvtq(d)
	case !uns && tw == 32:
		return cvtl(d)
	case tw == 8 || tw == 16:
		return mk(fmt.Sprintf("(_ extract %d 0)", tw-1), SBV(tw), cvtl(d))
	case uns && tw == 32:
		return mk("(_ extract 31 0)", SBV(32), cvtq(d))
	case uns && tw == 64:
		small := mk("fp.lt", SBool, d, two(63))
		hi := mk("bvor", SBV(64), cvtq(mk("fp.sub", f64, rne, d, two(63))), BVLit(new(big.Int).Lsh(big.NewInt(1), 63), 64))
		return Ite(small, cvtq(d), hi)
	}
	u.errorf("floatToInt: unsupported destination %s", to)
	return BVLit64(0, tw)
}

// ---- realfloat (standard model of binary64 over the reals) ------------------------
//
// A float value is (Spec, Term): Spec 0 finite with real value Term, 1 +Inf,
// 2 -Inf, 3 NaN. Every arithmetic operation on finite operands returns
// rnd(exact) where rnd is an uninterpreted Real->Real function constrained by
// instantiated axioms (see rfAxioms): monotone, relative error 2^-53, integers
// of magnitude <= 2^53 are fixed points. Overflow to infinity and underflow
// are excluded by range obligations emitted at each operation.

func (u *Unit) rnd(t *Term) *Term { return u.ctx.App("rnd", SReal, t) }

// rndT: correctly rounded to the format of Go type typ (binary32 or binary64).
func (u *Unit) rndT(t *Term, typ types.Type) *Term {
	if typ != nil && basicOf(typ) != nil && basicOf(typ).Kind() == types.Float32 {
		u.noteRnd32(t)
		return u.ctx.App("rnd32", SReal, t)
	}
	u.noteRnd(t)
	return u.rnd(t)
}

func (u *Unit) noteRnd32(exact *Term) {
	for _, e := range u.rndArgs32 {
		if e.String() == exact.String() {
			return
		}
	}
	u.rndArgs32 = append(u.rndArgs32, exact)
}

func (u *Unit) rfBinary(op token.Token, a, b Value, typ types.Type) (Value, *Term) {
	x, y := a.Term, b.Term
	fin := And(Eq(a.Spec, IntLit(0)), Eq(b.Spec, IntLit(0)))
	boolv := func(t *Term) Value { return Value{K: KBool, T: types.Typ[types.Bool], Term: t} }
	zero := RealLit("0.0")
	switch op {
	case token.LSS, token.LEQ, token.GTR, token.GEQ, token.EQL, token.NEQ:
		// only finite comparisons are modelled precisely; specials: NaN compares false
		var t *Term
		switch op {
		case token.LSS:
			t = Lt(x, y)
		case token.LEQ:
			t = Le(x, y)
		case token.GTR:
			t = Gt(x, y)
		case token.GEQ:
			t = Ge(x, y)
		case token.EQL:
			t = Eq(x, y)
		case token.NEQ:
			t = Ne(x, y)
		}
		// extended-real order for infinities
		ex := func(v Value) *Term {
			big_ := RealLit("1" + strings.Repeat("0", 400) + ".0")
			return Ite(Eq(v.Spec, IntLit(1)), big_, Ite(Eq(v.Spec, IntLit(2)), mk("-", SReal, big_), v.Term))
		}
		var te *Term
		ax, ay := ex(a), ex(b)
		switch op {
		case token.LSS:
			te = Lt(ax, ay)
		case token.LEQ:
			te = Le(ax, ay)
		case token.GTR:
			te = Gt(ax, ay)
		case token.GEQ:
			te = Ge(ax, ay)
		case token.EQL:
			te = Eq(ax, ay)
		case token.NEQ:
			te = Ne(ax, ay)
		}
		anyNaN := Or(Eq(a.Spec, IntLit(3)), Eq(b.Spec, IntLit(3)))
		nanRes := False
		if op == token.NEQ {
			nanRes = True
		}
		return boolv(Ite(fin, t, Ite(anyNaN, nanRes, te))), nil
	case token.QUO:
		exact := mk("/", SReal, x, y)
		r := u.rndT(exact, typ)
		// special results
		kind := Ite(Eq(a.Spec, IntLit(3)), IntLit(3), Ite(Eq(b.Spec, IntLit(3)), IntLit(3),
			Ite(fin,
				Ite(Ne(y, zero), IntLit(0), Ite(Gt(x, zero), IntLit(1), Ite(Lt(x, zero), IntLit(2), IntLit(3)))),
				// inf/inf = NaN, inf/finite = inf with sign, finite/inf = 0
				Ite(And(Ne(a.Spec, IntLit(0)), Ne(b.Spec, IntLit(0))), IntLit(3),
					Ite(Ne(a.Spec, IntLit(0)),
						Ite(Eq(Ge(y, zero), Eq(a.Spec, IntLit(1))), IntLit(1), IntLit(2)),
						IntLit(0))))))
		val := Ite(And(fin, Ne(y, zero)), r, zero)
		return u.rfName(Value{K: KNum, T: typ, Term: val, Spec: kind}, "quo"), nil
	case token.MUL, token.ADD, token.SUB:
		opn := map[token.Token]string{token.MUL: "*", token.ADD: "+", token.SUB: "-"}[op]
		exact := mk(opn, SReal, x, y)
		r := u.rndT(exact, typ)
		// specials: only NaN/Inf propagation needed; sign rules for inf*x
		var kind *Term
		if op == token.MUL {
			sgnPos := func(v Value) *Term { // value is positive (incl +inf)
				return Or(Eq(v.Spec, IntLit(1)), And(Eq(v.Spec, IntLit(0)), Gt(v.Term, zero)))
			}
			isZero := func(v Value) *Term { return And(Eq(v.Spec, IntLit(0)), Eq(v.Term, zero)) }
			kind = Ite(fin, IntLit(0),
				Ite(Or(Eq(a.Spec, IntLit(3)), Eq(b.Spec, IntLit(3)), isZero(a), isZero(b)), IntLit(3),
					Ite(Eq(sgnPos(a), sgnPos(b)), IntLit(1), IntLit(2))))
		} else {
			// a+b / a-b with specials
			bs := b.Spec
			if op == token.SUB {
				bs = Ite(Eq(b.Spec, IntLit(1)), IntLit(2), Ite(Eq(b.Spec, IntLit(2)), IntLit(1), b.Spec))
			}
			kind = Ite(fin, IntLit(0),
				Ite(Or(Eq(a.Spec, IntLit(3)), Eq(bs, IntLit(3))), IntLit(3),
					Ite(Eq(a.Spec, IntLit(0)), bs,
						Ite(Eq(bs, IntLit(0)), a.Spec,
							Ite(Eq(a.Spec, bs), a.Spec, IntLit(3))))))
		}
		return u.rfName(Value{K: KNum, T: typ, Term: Ite(fin, r, zero), Spec: kind}, "arith"), nil
	}
	u.errorf("rfBinary: unsupported operator %s", op)
	return a, nil
}

// rnd applications seen in this unit (for axiom instantiation)
func (u *Unit) noteRnd(exact *Term) {
	for _, e := range u.rndArgs {
		if e.String() == exact.String() {
			return
		}
	}
	u.rndArgs = append(u.rndArgs, exact)
}

// rfConvert handles conversions in realfloat mode (int<->float, float->float64).
func (u *Unit) rfConvert(st *State, v Value, to types.Type) Value {
	switch {
	case v.K == KInt && isFloatT(to):
		// exact when |n| <= 2^53, otherwise rounded
		r := mk("to_real", SReal, v.Term)
		mant := uint(53)
		if basicOf(to).Kind() == types.Float32 {
			mant = 24
		}
		lim := IntBig(new(big.Int).Lsh(big.NewInt(1), mant))
		return u.rfName(Value{K: KNum, T: to, Term: Ite(And(Le(Neg(lim), v.Term), Le(v.Term, lim)), r, u.rndT(r, to)), Spec: IntLit(0)}, "itof")
	case v.K == KNum && v.Term.Sort == SReal && isFloatT(to):
		if basicOf(to).Kind() == types.Float32 && (v.T == nil || basicOf(v.T) == nil || basicOf(v.T).Kind() != types.Float32) {
			// narrowing to binary32 rounds
			return u.rfName(Value{K: KNum, T: to, Term: u.rndT(v.Term, to), Spec: v.Spec}, "narrow")
		}
		return Value{K: KNum, T: to, Term: v.Term, Spec: v.Spec}
	case v.K == KNum && v.Term.Sort == SReal && isIntegerT(to):
		// gc/amd64: NaN, +-Inf and out-of-range -> MinInt64 (64-bit signed destinations)
		tr := Ite(Ge(v.Term, RealLit("0.0")), mk("to_int", SInt, v.Term), Neg(mk("to_int", SInt, mk("-", SReal, v.Term))))
		if v.Inner != nil && v.Inner.K == KInt {
			tr = v.Inner.Term // the value is to_real of this integer (math.Round / Ceil / Floor / Trunc)
		}
		min := IntBig(new(big.Int).Neg(new(big.Int).Lsh(big.NewInt(1), 63)))
		inr := And(Eq(v.Spec, IntLit(0)), Ge(tr, min), Lt(tr, IntBig(new(big.Int).Lsh(big.NewInt(1), 63))))
		if u.widthOf(to) != 64 || isUnsignedT(to) {
			u.errorf("rfConvert: float->%s not modelled in realfloat mode", to)
		}
		c := u.ctx.Fresh("ftoi", SInt)
		u.defs = append(u.defs, Eq(c, Ite(inr, tr, min)))
		return Value{K: KInt, T: to, Term: c}
	case v.K == KInt && isIntegerT(to):
		return Value{K: KInt, T: to, Term: v.Term}
	}
	u.errorf("rfConvert: unsupported conversion of %v to %s", v, to)
	return v
}

// rfAxioms instantiates the standard-model axioms for every rnd application
// seen and every hint term (integers that are fixed points of rnd).
func (u *Unit) rfAxioms(hints []*Term) []*Term {
	ax := u.rfAxiomsFor("rnd", 53, u.rndArgs, hints)
	if len(u.rndArgs32) > 0 {
		ax = append(ax, u.rfAxiomsFor("rnd32", 24, u.rndArgs32, hints)...)
	}
	return ax
}

func (u *Unit) rfAxiomsFor(fn string, prec uint, args []*Term, hints []*Term) []*Term {
	rndf := func(t *Term) *Term { return u.ctx.App(fn, SReal, t) }
	var ax []*Term
	eps := mk("/", SReal, RealLit("1.0"), RealLit(new(big.Int).Lsh(big.NewInt(1), prec).String()+".0"))
	abs := func(t *Term) *Term { return Ite(Ge(t, RealLit("0.0")), t, mk("-", SReal, t)) }
	var pts []*Term
	pts = append(pts, args...)
	for _, h := range hints {
		pts = append(pts, h)
	}
	lim := RealLit(new(big.Int).Lsh(big.NewInt(1), prec).String() + ".0")
	isHint := map[string]bool{}
	for _, h := range hints {
		isHint[h.String()] = true
	}
	for _, p := range pts {
		r := rndf(p)
		// relative error
		ax = append(ax, Le(abs(mk("-", SReal, r, p)), mk("*", SReal, eps, abs(p))))
		// integers up to 2^prec are exact (instantiated for hint points and integer-valued arguments only)
		if p.Op == "to_real" {
			ax = append(ax, Imp(Le(abs(p), lim), Eq(r, p)))
		} else if isHint[p.String()] {
			isInt := Eq(mk("to_real", SReal, mk("to_int", SInt, p)), p)
			ax = append(ax, Imp(And(isInt, Le(abs(p), lim)), Eq(r, p)))
		}
	}
	for i, p := range pts {
		for j, q := range pts {
			if i != j {
				ax = append(ax, Imp(Le(p, q), Le(rndf(p), rndf(q))))
			}
		}
	}
	return ax
}

// rfName binds a realfloat value to fresh constants (sharing: keeps VCs linear in size).
func (u *Unit) rfName(v Value, hint string) Value {
	c := u.ctx.Fresh("rf_"+hint, SReal)
	u.defs = append(u.defs, Eq(c, v.Term))
	k := v.Spec
	if _, ok := isIntLit(k); !ok {
		kc := u.ctx.Fresh("rfk_"+hint, SInt)
		u.defs = append(u.defs, Eq(kc, k))
		k = kc
	}
	return Value{K: KNum, T: v.T, Term: c, Spec: k}
}
