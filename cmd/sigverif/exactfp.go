package main

import (
	"fmt"
	"math/big"
	"strings"
)

// Exact scaled-integer model of IEEE-754 round-to-nearest-even arithmetic with
// one constant operand (DESIGN §3.2, "exact model"). Unlike the standard model
// (stdmodel.go) nothing is abstracted: every float value of the extracted
// bit-precise kernel is the rational Num / (Den * 2^Scale) with Num an integer
// SMT term and Den, Scale static, and every correctly rounded operation in a
// fixed binade 2^e <= |v| < 2^(e+1) is the pair of linear integer constraints
//
//	Num * 2^a = k * D + r,  -D <= 2r <= D,  (2r = +-D  =>  k even)
//
// (k the p-bit significand of the result, D a constant). The binade, the sign
// of a value and the outcome of every comparison the intervals do not decide
// are enumerated outside the solver: the lemma becomes the unsatisfiability of
// a disjunction of path cases, each a conjunction of linear integer constraints
// over the input code and the fresh k, r of its roundings. This is what proves
// (x / m) * m == x for all 2^31 codes, where it is a fact about the residues of
// m and not a consequence of error bounds; the FloatingPoint theory times out
// on the same statement. The translation refuses what it does not know.

type exVal struct {
	Num    *Term    // Int-sorted
	Den    *big.Int // > 0
	Scale  int      // value = Num / (Den * 2^Scale)
	Lo, Hi *big.Rat // sound bounds of the value
	Const  *big.Rat // the value itself when it is a constant
	A      *aff     // Num = A.C * X + A.D (X the input code), when known
}

type exInt struct {
	T      *Term
	Lo, Hi *big.Int
	A      *aff
}

// aff: an integer term known to be C*X + D for the input variable X
type aff struct{ C, D *big.Int }

func affScale(a *aff, c *big.Int) *aff {
	if a == nil {
		return nil
	}
	return &aff{C: new(big.Int).Mul(a.C, c), D: new(big.Int).Mul(a.D, c)}
}
func affAdd(a *aff, n *big.Int) *aff {
	if a == nil {
		return nil
	}
	return &aff{C: a.C, D: new(big.Int).Add(a.D, n)}
}

func affOf(t *Term, a *aff) *aff {
	if a != nil {
		return a
	}
	if n, ok := bigOfIntTerm(t); ok {
		return &aff{C: new(big.Int), D: n}
	}
	return nil
}
func affSum(a *aff, ca *big.Int, b *aff, cb *big.Int) *aff {
	if a == nil || b == nil {
		return nil
	}
	x, y := affScale(a, ca), affScale(b, cb)
	return &aff{C: new(big.Int).Add(x.C, y.C), D: new(big.Int).Add(x.D, y.D)}
}

func floorDiv(a, b *big.Int) *big.Int { // b > 0
	q, m := new(big.Int).DivMod(a, b, new(big.Int))
	_ = m
	return q
}

// refineX adds the fact c*X op K (op one of < <= > >= =) to the range of the
// input code on this path; false when the range becomes empty.
func (st *exState) refineX(c *big.Int, op string, K *big.Int) bool {
	if st.xlo == nil {
		return true
	}
	if c.Sign() == 0 {
		z := new(big.Int)
		switch op {
		case "<":
			return z.Cmp(K) < 0
		case "<=":
			return z.Cmp(K) <= 0
		case ">":
			return z.Cmp(K) > 0
		case ">=":
			return z.Cmp(K) >= 0
		}
		return z.Cmp(K) == 0
	}
	if c.Sign() < 0 {
		c, K = new(big.Int).Neg(c), new(big.Int).Neg(K)
		op = map[string]string{"<": ">", "<=": ">=", ">": "<", ">=": "<=", "=": "="}[op]
	}
	one := big.NewInt(1)
	lo, hi := st.xlo, st.xhi
	switch op {
	case "<":
		h := floorDiv(new(big.Int).Sub(K, one), c)
		if h.Cmp(hi) < 0 {
			hi = h
		}
	case "<=":
		h := floorDiv(K, c)
		if h.Cmp(hi) < 0 {
			hi = h
		}
	case ">":
		l := new(big.Int).Add(floorDiv(K, c), one)
		if l.Cmp(lo) > 0 {
			lo = l
		}
	case ">=":
		l := new(big.Int).Neg(floorDiv(new(big.Int).Neg(K), c))
		if l.Cmp(lo) > 0 {
			lo = l
		}
	case "=":
		q, m := new(big.Int).DivMod(K, c, new(big.Int))
		if m.Sign() != 0 {
			return false
		}
		if q.Cmp(lo) > 0 {
			lo = q
		}
		if q.Cmp(hi) < 0 {
			hi = q
		}
	}
	st.xlo, st.xhi = lo, hi
	return lo.Cmp(hi) <= 0
}

type exState struct {
	asserts  []*Term
	memo     map[string]interface{}
	xlo, xhi *big.Int // refined range of the input code on this path
}

func (st *exState) fork() *exState {
	n := &exState{asserts: append([]*Term{}, st.asserts...), memo: make(map[string]interface{}, len(st.memo)), xlo: st.xlo, xhi: st.xhi}
	for k, v := range st.memo {
		n.memo[k] = v
	}
	return n
}

type exTr struct {
	ctx    *Ctx
	varBV  map[string]*Term
	varLo  map[string]*big.Int
	varHi  map[string]*big.Int
	sgn    map[string]bool
	err    string
	nCases int
	nRound int
	// equal bit-vectors are equal under either reading; the input's own avoids a wrap
	eqSigned bool
}

const exMaxCases = 20000

func newExTr(ctx *Ctx) *exTr {
	return &exTr{ctx: ctx, varBV: map[string]*Term{}, varLo: map[string]*big.Int{}, varHi: map[string]*big.Int{}, sgn: map[string]bool{}}
}

func (e *exTr) fail(format string, a ...interface{}) {
	if e.err == "" {
		e.err = fmt.Sprintf(format, a...)
	}
}

func ratInt(n *big.Int) *big.Rat { return new(big.Rat).SetInt(n) }
func ratPow2(k int) *big.Rat {
	if k >= 0 {
		return ratInt(pow2(k))
	}
	return new(big.Rat).SetFrac(big.NewInt(1), pow2(-k))
}

// floorLog2 of a positive rational
func floorLog2(r *big.Rat) int {
	n, d := r.Num(), r.Denom()
	e := n.BitLen() - d.BitLen()
	// 2^e <= r < 2^(e+1)?  adjust
	for ratPow2(e).Cmp(r) > 0 {
		e--
	}
	for ratPow2(e+1).Cmp(r) <= 0 {
		e++
	}
	return e
}

func exConst(r *big.Rat) exVal {
	// r = n / (dodd * 2^t)
	den := new(big.Int).Set(r.Denom())
	t := 0
	for den.Bit(0) == 0 {
		den.Rsh(den, 1)
		t++
	}
	return exVal{Num: IntBig(new(big.Int).Set(r.Num())), Den: den, Scale: t, Lo: r, Hi: r, Const: r}
}

func mulBig(c *big.Int, t *Term) *Term {
	if c.Cmp(big.NewInt(1)) == 0 {
		return t
	}
	if n, ok := bigOfIntTerm(t); ok {
		return IntBig(new(big.Int).Mul(c, n))
	}
	return mk("*", SInt, IntBig(c), t)
}

// sides of "v ? n/d": Num * d * 2^max(0,-Scale)  ?  n * Den * 2^max(0,Scale)
func (v exVal) cmpSides(r *big.Rat) (*Term, *Term) {
	l, rr := v.cmpCoef(r)
	return mulBig(l, v.Num), IntBig(rr)
}
func (v exVal) cmpCoef(r *big.Rat) (*big.Int, *big.Int) {
	l := new(big.Int).Set(r.Denom())
	rr := new(big.Int).Mul(r.Num(), v.Den)
	if v.Scale < 0 {
		l.Lsh(l, uint(-v.Scale))
	} else {
		rr.Lsh(rr, uint(v.Scale))
	}
	return l, rr
}

// refineCmp: the fact "v op r" (r constant) refines the input range when v is affine in X.
func (st *exState) refineCmp(v exVal, op string, r *big.Rat) bool {
	a := affOf(v.Num, v.A)
	if a == nil {
		return true
	}
	l, rr := v.cmpCoef(r)
	return st.refineX(new(big.Int).Mul(l, a.C), op, new(big.Int).Sub(rr, new(big.Int).Mul(l, a.D)))
}

func cmpTerm(op string, a, b *Term) *Term { return mk(op, SBool, a, b) }

// decide compares intervals: returns (result, decided)
func decideCmp(op string, alo, ahi, blo, bhi *big.Rat) (bool, bool) {
	switch op {
	case "<":
		if ahi.Cmp(blo) < 0 {
			return true, true
		}
		if alo.Cmp(bhi) >= 0 {
			return false, true
		}
	case "<=":
		if ahi.Cmp(blo) <= 0 {
			return true, true
		}
		if alo.Cmp(bhi) > 0 {
			return false, true
		}
	case "=":
		if alo.Cmp(ahi) == 0 && blo.Cmp(bhi) == 0 && alo.Cmp(blo) == 0 {
			return true, true
		}
		if ahi.Cmp(blo) < 0 || bhi.Cmp(alo) < 0 {
			return false, true
		}
	}
	return false, false
}

// branch forks on an undecided condition.
func (e *exTr) branch(st *exState, cond *Term, k func(bool, *exState)) {
	if e.err != "" {
		return
	}
	e.nCases++
	if e.nCases > exMaxCases {
		e.fail("more than %d path cases", exMaxCases)
		return
	}
	t := st.fork()
	t.asserts = append(t.asserts, cond)
	k(true, t)
	f := st.fork()
	f.asserts = append(f.asserts, Not(cond))
	k(false, f)
}

// cmpVals: a op b for op in < <= =
func (e *exTr) cmpVals(op string, a, b exVal, st *exState, k func(bool, *exState)) {
	if r, ok := decideCmp(op, a.Lo, a.Hi, b.Lo, b.Hi); ok {
		k(r, st)
		return
	}
	// a.Num/(a.Den 2^sa) op b.Num/(b.Den 2^sb)  <=>  a.Num * b.Den * 2^(S-sa) op b.Num * a.Den * 2^(S-sb), S = max
	S := a.Scale
	if b.Scale > S {
		S = b.Scale
	}
	lc := new(big.Int).Lsh(new(big.Int).Set(b.Den), uint(S-a.Scale))
	rc := new(big.Int).Lsh(new(big.Int).Set(a.Den), uint(S-b.Scale))
	cond := cmpTerm(op, mulBig(lc, a.Num), mulBig(rc, b.Num))
	aa, ab := affOf(a.Num, a.A), affOf(b.Num, b.A)
	if aa == nil || ab == nil || e.err != "" {
		e.branch(st, cond, k)
		return
	}
	// (lc*aa.C - rc*ab.C) * X  op  rc*ab.D - lc*aa.D
	c := new(big.Int).Sub(new(big.Int).Mul(lc, aa.C), new(big.Int).Mul(rc, ab.C))
	K := new(big.Int).Sub(new(big.Int).Mul(rc, ab.D), new(big.Int).Mul(lc, aa.D))
	t, f := st.fork(), st.fork()
	okT := t.refineX(c, op, K)
	okF := true
	if op != "=" {
		okF = f.refineX(c, map[string]string{"<": ">=", "<=": ">"}[op], K)
	}
	switch {
	case okT && !okF:
		k(true, st)
	case !okT && okF:
		k(false, st)
	case !okT && !okF:
		// the path is infeasible
	default:
		e.nCases++
		if e.nCases > exMaxCases {
			e.fail("more than %d path cases", exMaxCases)
			return
		}
		t.asserts = append(t.asserts, cond)
		k(true, t)
		f.asserts = append(f.asserts, Not(cond))
		k(false, f)
	}
}

func minRat(a, b *big.Rat) *big.Rat {
	if a.Cmp(b) <= 0 {
		return a
	}
	return b
}
func maxRat(a, b *big.Rat) *big.Rat {
	if a.Cmp(b) >= 0 {
		return a
	}
	return b
}

func exNeg(v exVal) exVal {
	out := exVal{Den: v.Den, Scale: v.Scale, Lo: new(big.Rat).Neg(v.Hi), Hi: new(big.Rat).Neg(v.Lo)}
	if n, ok := bigOfIntTerm(v.Num); ok {
		out.Num = IntBig(new(big.Int).Neg(n))
	} else {
		out.Num = Neg(v.Num)
	}
	if v.Const != nil {
		out.Const = new(big.Rat).Neg(v.Const)
	}
	out.A = affScale(v.A, big.NewInt(-1))
	return out
}

// mulConst: v * c for a constant c != 0
func exMulConst(v exVal, c *big.Rat) exVal {
	if v.Const != nil {
		return exConst(new(big.Rat).Mul(v.Const, c))
	}
	num := new(big.Int).Set(c.Num())
	den := new(big.Int).Set(c.Denom())
	t := 0
	for den.Bit(0) == 0 {
		den.Rsh(den, 1)
		t++
	}
	s := 0
	for num.Sign() != 0 && num.Bit(0) == 0 {
		num.Rsh(num, 1)
		s++
	}
	out := exVal{Num: mulBig(num, v.Num), Den: new(big.Int).Mul(v.Den, den), Scale: v.Scale + t - s, A: affScale(v.A, num)}
	a, b := new(big.Rat).Mul(v.Lo, c), new(big.Rat).Mul(v.Hi, c)
	out.Lo, out.Hi = minRat(a, b), maxRat(a, b)
	return out
}

func exAdd(a, b exVal, sub bool) exVal {
	if sub {
		b = exNeg(b)
	}
	if a.Const != nil && b.Const != nil {
		return exConst(new(big.Rat).Add(a.Const, b.Const))
	}
	S := a.Scale
	if b.Scale > S {
		S = b.Scale
	}
	var den *big.Int
	ca, cb := big.NewInt(1), big.NewInt(1)
	if a.Den.Cmp(b.Den) == 0 {
		den = a.Den
	} else {
		den = new(big.Int).Mul(a.Den, b.Den)
		ca, cb = b.Den, a.Den
	}
	ka := new(big.Int).Lsh(new(big.Int).Set(ca), uint(S-a.Scale))
	kb := new(big.Int).Lsh(new(big.Int).Set(cb), uint(S-b.Scale))
	l := mulBig(ka, a.Num)
	r := mulBig(kb, b.Num)
	return exVal{Num: Add(l, r), Den: den, Scale: S, Lo: new(big.Rat).Add(a.Lo, b.Lo), Hi: new(big.Rat).Add(a.Hi, b.Hi),
		A: affSum(affOf(a.Num, a.A), ka, affOf(b.Num, b.A), kb)}
}

func expRange(p int) (int, int) {
	if p == 24 {
		return -126, 127
	}
	return -1022, 1023
}

// round: RNE to precision p (no overflow, no subnormals: refused otherwise).
func (e *exTr) round(v exVal, p int, st *exState, k func(exVal, *exState)) {
	if e.err != "" {
		return
	}
	if v.Const != nil {
		k(exConst(roundRat(v.Const, p)), st)
		return
	}
	if v.Scale > 900 || v.Scale < -900 {
		e.fail("value scaled by 2^%d: outside the exponent range the model covers", -v.Scale)
		return
	}
	// exactly representable: integer significand below 2^p
	if v.Den.Cmp(big.NewInt(1)) == 0 {
		m := maxRat(new(big.Rat).Abs(v.Lo), new(big.Rat).Abs(v.Hi))
		m = new(big.Rat).Mul(m, ratPow2(v.Scale)) // bound of |Num|
		if m.Cmp(ratPow2(p)) <= 0 {
			k(v, st)
			return
		}
	}
	zero := new(big.Rat)
	pos := func(w exVal, st *exState, k func(exVal, *exState)) {
		// w > 0 on this path; smallest positive value of this representation
		lo := w.Lo
		minPos := new(big.Rat).SetFrac(big.NewInt(1), w.Den)
		minPos.Mul(minPos, ratPow2(-w.Scale))
		if lo.Cmp(minPos) < 0 {
			lo = minPos
		}
		if w.Hi.Cmp(lo) < 0 {
			return // infeasible
		}
		elo, ehi := floorLog2(lo), floorLog2(w.Hi)
		emin, emax := expRange(p)
		if elo < emin || ehi > emax {
			e.fail("rounding outside the normal exponent range (%d..%d)", elo, ehi)
			return
		}
		if ehi-elo > 130 {
			e.fail("rounding over %d binades", ehi-elo+1)
			return
		}
		for ex := elo; ex <= ehi; ex++ {
			if e.err != "" {
				return
			}
			e.nCases++
			if e.nCases > exMaxCases {
				e.fail("more than %d path cases", exMaxCases)
				return
			}
			s2 := st.fork()
			if !s2.refineCmp(w, ">=", ratPow2(ex)) || !s2.refineCmp(w, "<", ratPow2(ex+1)) {
				continue // no input code puts the value into this binade
			}
			l1, r1 := w.cmpSides(ratPow2(ex))
			l2, r2 := w.cmpSides(ratPow2(ex + 1))
			s2.asserts = append(s2.asserts, cmpTerm("<=", r1, l1), cmpTerm("<", l2, r2))
			e.nRound++
			kk := e.ctx.Fresh("k", SInt)
			rr := e.ctx.Fresh("r", SInt)
			j := w.Scale + ex - p + 1
			var lhs *Term
			var D *big.Int
			if j >= 0 {
				lhs = w.Num
				D = new(big.Int).Lsh(new(big.Int).Set(w.Den), uint(j))
			} else {
				lhs = mulBig(pow2(-j), w.Num)
				D = new(big.Int).Set(w.Den)
			}
			two := big.NewInt(2)
			s2.asserts = append(s2.asserts,
				Eq(lhs, Add(mulBig(D, kk), rr)),
				Le(mulBig(two, rr), IntBig(D)), Le(IntBig(new(big.Int).Neg(D)), mulBig(two, rr)),
				Le(IntBig(pow2(p-1)), kk), Le(kk, IntBig(pow2(p))))
			if D.Bit(0) == 0 { // a tie is possible only for an even divisor
				half := new(big.Int).Rsh(D, 1)
				s2.asserts = append(s2.asserts, Imp(Or(Eq(rr, IntBig(half)), Eq(rr, IntBig(new(big.Int).Neg(half)))), Eq(mk("mod", SInt, kk, IntLit(2)), IntLit(0))))
			}
			out := exVal{Num: kk, Den: big.NewInt(1), Scale: p - 1 - ex,
				Lo: maxRat(ratPow2(ex), roundRat(lo, p)), Hi: minRat(ratPow2(ex+1), roundRat(w.Hi, p))}
			k(out, s2)
		}
	}
	doSign := func(sign int, st *exState) {
		switch sign {
		case 0:
			k(exConst(zero), st)
		case 1:
			pos(v, st, k)
		case -1:
			pos(exNeg(v), st, func(r exVal, s2 *exState) { k(exNeg(r), s2) })
		}
	}
	switch {
	case v.Lo.Sign() > 0:
		doSign(1, st)
	case v.Hi.Sign() < 0:
		doSign(-1, st)
	default:
		zt := IntLit(0)
		if v.Hi.Sign() > 0 {
			s2 := st.fork()
			s2.asserts = append(s2.asserts, Gt(v.Num, zt))
			if s2.refineCmp(v, ">", zero) {
				doSign(1, s2)
			}
		}
		if v.Lo.Sign() < 0 {
			s2 := st.fork()
			s2.asserts = append(s2.asserts, Lt(v.Num, zt))
			if s2.refineCmp(v, "<", zero) {
				doSign(-1, s2)
			}
		}
		s2 := st.fork()
		s2.asserts = append(s2.asserts, Eq(v.Num, zt))
		if s2.refineCmp(v, "=", zero) {
			doSign(0, s2)
		}
	}
}

// fp evaluates an FP-sorted term.
func (e *exTr) fp(t *Term, st *exState, k func(exVal, *exState)) {
	if e.err != "" {
		return
	}
	key := "fp:" + t.String()
	if v, ok := st.memo[key]; ok {
		k(v.(exVal), st)
		return
	}
	kk := func(v exVal, s2 *exState) {
		s2.memo[key] = v
		k(v, s2)
	}
	p := precOfSort(t.Sort)
	if len(t.Args) == 0 {
		if m := reToFP.FindStringSubmatch(t.Op); m != nil {
			r, ok := ratOfLiteral(m[3])
			if !ok {
				e.fail("unsupported FP literal %s", t.Op)
				return
			}
			kk(exConst(roundRat(r, p)), st)
			return
		}
		e.fail("unsupported FP leaf %s", t.Op)
		return
	}
	switch {
	case strings.HasPrefix(t.Op, "(_ to_fp_unsigned"):
		e.bv(t.Args[1], false, st, func(v exInt, s2 *exState) { e.round(exOfInt(v), p, s2, kk) })
	case strings.HasPrefix(t.Op, "(_ to_fp"):
		a := t.Args[1]
		if isBV(a) {
			e.bv(a, true, st, func(v exInt, s2 *exState) { e.round(exOfInt(v), p, s2, kk) })
			return
		}
		e.fp(a, st, func(v exVal, s2 *exState) {
			if precOfSort(a.Sort) <= p {
				kk(v, s2)
				return
			}
			e.round(v, p, s2, kk)
		})
	case t.Op == "fp.neg":
		e.fp(t.Args[0], st, func(v exVal, s2 *exState) { kk(exNeg(v), s2) })
	case t.Op == "fp.add" || t.Op == "fp.sub" || t.Op == "fp.mul" || t.Op == "fp.div":
		if t.Args[0].Op != "RNE" {
			e.fail("unsupported rounding mode %s", t.Args[0].Op)
			return
		}
		e.fp(t.Args[1], st, func(a exVal, s2 *exState) {
			e.fp(t.Args[2], s2, func(b exVal, s3 *exState) {
				var exact exVal
				switch t.Op {
				case "fp.add":
					exact = exAdd(a, b, false)
				case "fp.sub":
					exact = exAdd(a, b, true)
				case "fp.mul":
					switch {
					case b.Const != nil && b.Const.Sign() == 0, a.Const != nil && a.Const.Sign() == 0:
						exact = exConst(new(big.Rat))
					case b.Const != nil:
						exact = exMulConst(a, b.Const)
					case a.Const != nil:
						exact = exMulConst(b, a.Const)
					default:
						e.fail("product of two non-constant floats")
						return
					}
				case "fp.div":
					if b.Const == nil || b.Const.Sign() == 0 {
						e.fail("division by a non-constant or by zero")
						return
					}
					exact = exMulConst(a, new(big.Rat).Inv(b.Const))
				}
				e.round(exact, p, s3, kk)
			})
		})
	case t.Op == "ite":
		e.boolT(t.Args[0], st, func(c bool, s2 *exState) {
			if c {
				e.fp(t.Args[1], s2, kk)
			} else {
				e.fp(t.Args[2], s2, kk)
			}
		})
	default:
		e.fail("unsupported FP operator %s", t.Op)
	}
}

func exOfInt(v exInt) exVal {
	out := exVal{Num: v.T, Den: big.NewInt(1), Scale: 0, Lo: ratInt(v.Lo), Hi: ratInt(v.Hi), A: v.A}
	if v.Lo.Cmp(v.Hi) == 0 {
		out.Const = ratInt(v.Lo)
		out.Num = IntBig(v.Lo)
	}
	return out
}

func exIntConst(n *big.Int) exInt { return exInt{T: IntBig(n), Lo: n, Hi: n} }

// wrap reduces a mathematical integer to width w under the signedness.
func exWrap(v exInt, w int, signed bool) exInt {
	lo, hi := big.NewInt(0), new(big.Int).Sub(pow2(w), big.NewInt(1))
	if signed {
		lo, hi = new(big.Int).Neg(pow2(w-1)), new(big.Int).Sub(pow2(w-1), big.NewInt(1))
	}
	if v.Lo.Cmp(lo) >= 0 && v.Hi.Cmp(hi) <= 0 {
		return v
	}
	if v.Lo.Cmp(v.Hi) == 0 {
		r := new(big.Int).Mod(v.Lo, pow2(w))
		if signed && r.Cmp(pow2(w-1)) >= 0 {
			r.Sub(r, pow2(w))
		}
		return exIntConst(r)
	}
	t := Add(mk("mod", SInt, Sub(v.T, IntBig(lo)), IntBig(pow2(w))), IntBig(lo))
	return exInt{T: t, Lo: lo, Hi: hi}
}

// trunc: float -> integer, rounding toward zero
func (e *exTr) trunc(v exVal, st *exState, k func(exInt, *exState)) {
	tz := func(r *big.Rat) *big.Int { // truncation of a rational
		q := new(big.Int).Quo(r.Num(), r.Denom())
		return q
	}
	if v.Const != nil {
		k(exIntConst(tz(v.Const)), st)
		return
	}
	pos := func(w exVal, st *exState, k func(exInt, *exState)) {
		lo, hi := tz(maxRat(w.Lo, new(big.Rat))), tz(w.Hi)
		num := w.Num
		D := new(big.Int).Set(w.Den)
		if w.Scale >= 0 {
			D.Lsh(D, uint(w.Scale))
		} else {
			num = mulBig(pow2(-w.Scale), num)
		}
		if D.Cmp(big.NewInt(1)) == 0 {
			var a *aff
			if w.Scale >= 0 {
				a = w.A
			} else {
				a = affScale(w.A, pow2(-w.Scale))
			}
			k(exInt{T: num, Lo: lo, Hi: hi, A: a}, st)
			return
		}
		q := e.ctx.Fresh("q", SInt)
		r := e.ctx.Fresh("t", SInt)
		st.asserts = append(st.asserts, Eq(num, Add(mulBig(D, q), r)), Le(IntLit(0), r), Lt(r, IntBig(D)))
		k(exInt{T: q, Lo: lo, Hi: hi}, st)
	}
	negInt := func(x exInt) exInt {
		return exInt{T: Neg(x.T), Lo: new(big.Int).Neg(x.Hi), Hi: new(big.Int).Neg(x.Lo), A: affScale(x.A, big.NewInt(-1))}
	}
	switch {
	case v.Lo.Sign() >= 0:
		pos(v, st.fork(), k)
	case v.Hi.Sign() <= 0:
		pos(exNeg(v), st.fork(), func(x exInt, s2 *exState) { k(negInt(x), s2) })
	default:
		e.branch(st, Ge(v.Num, IntLit(0)), func(c bool, s2 *exState) {
			if c {
				w := v
				w.Lo = new(big.Rat)
				pos(w, s2, k)
			} else {
				w := exNeg(v)
				w.Lo = new(big.Rat)
				pos(w, s2, func(x exInt, s3 *exState) { k(negInt(x), s3) })
			}
		})
	}
}

var exReToUbv = func() func(string) (int, bool, bool) {
	return func(op string) (int, bool, bool) {
		var w int
		if _, err := fmt.Sscanf(op, "(_ fp.to_sbv %d)", &w); err == nil {
			return w, true, true
		}
		if _, err := fmt.Sscanf(op, "(_ fp.to_ubv %d)", &w); err == nil {
			return w, false, true
		}
		return 0, false, false
	}
}()

// bv evaluates a BV term to its value under the given signedness.
func (e *exTr) bv(t *Term, signed bool, st *exState, k func(exInt, *exState)) {
	if e.err != "" {
		return
	}
	key := fmt.Sprintf("bv%v:%s", signed, t.String())
	if v, ok := st.memo[key]; ok {
		k(v.(exInt), st)
		return
	}
	kk := func(v exInt, s2 *exState) {
		s2.memo[key] = v
		k(v, s2)
	}
	w := bvWidth(t.Sort)
	if len(t.Args) == 0 {
		if v, ok := e.varBV[t.Op]; ok {
			x := exInt{T: v, Lo: e.varLo[t.Op], Hi: e.varHi[t.Op], A: &aff{C: big.NewInt(1), D: new(big.Int)}}
			if st.xlo != nil {
				x.Lo, x.Hi = st.xlo, st.xhi
			}
			if e.sgn[t.Op] != signed {
				x = exWrap(x, w, signed)
			}
			kk(x, st)
			return
		}
		if n, lw, ok := bvLitVal(t); ok {
			if signed {
				n = toSigned(n, lw)
			}
			kk(exIntConst(n), st)
			return
		}
		e.fail("unsupported BV leaf %s", t.Op)
		return
	}
	if reExtract.MatchString(t.Op) {
		e.bv(t.Args[0], true, st, func(v exInt, s2 *exState) { kk(exWrap(v, w, signed), s2) })
		return
	}
	if m := reExtend.FindStringSubmatch(t.Op); m != nil {
		e.bv(t.Args[0], m[1] == "sign", st, func(v exInt, s2 *exState) { kk(exWrap(v, w, signed), s2) })
		return
	}
	if cw, csigned, ok := exReToUbv(t.Op); ok {
		if t.Args[0].Op != "RTZ" {
			e.fail("float->integer conversion with rounding %s", t.Args[0].Op)
			return
		}
		e.fp(t.Args[1], st, func(f exVal, s2 *exState) {
			e.trunc(f, s2, func(x exInt, s3 *exState) {
				// SMT-LIB leaves out-of-range conversions unspecified; the kernel guards them
				lo, hi := big.NewInt(0), new(big.Int).Sub(pow2(cw), big.NewInt(1))
				if csigned {
					lo, hi = new(big.Int).Neg(pow2(cw-1)), new(big.Int).Sub(pow2(cw-1), big.NewInt(1))
				}
				if x.Lo.Cmp(lo) < 0 || x.Hi.Cmp(hi) > 0 {
					// SMT-LIB leaves an out-of-range conversion unspecified: any value of the type
					// (the kernel guards every conversion with the gc/amd64 range test, which makes
					// that case contradictory on its path)
					e.branch(s3, And(Le(IntBig(lo), x.T), Le(x.T, IntBig(hi))), func(in bool, s4 *exState) {
						if in {
							y := x
							if y.Lo.Cmp(lo) < 0 {
								y.Lo = lo
							}
							if y.Hi.Cmp(hi) > 0 {
								y.Hi = hi
							}
							kk(exWrap(y, w, signed), s4)
						} else {
							kk(exWrap(exInt{T: e.ctx.Fresh("u", SInt), Lo: lo, Hi: hi}, w, signed), s4)
						}
					})
					return
				}
				kk(exWrap(x, w, signed), s3)
			})
		})
		return
	}
	switch t.Op {
	case "bvadd", "bvsub", "bvmul":
		e.bv(t.Args[0], signed, st, func(a exInt, s2 *exState) {
			e.bv(t.Args[1], signed, s2, func(b exInt, s3 *exState) {
				var r exInt
				switch t.Op {
				case "bvadd":
					r = exInt{T: Add(a.T, b.T), Lo: new(big.Int).Add(a.Lo, b.Lo), Hi: new(big.Int).Add(a.Hi, b.Hi),
						A: affSum(affOf(a.T, a.A), big.NewInt(1), affOf(b.T, b.A), big.NewInt(1))}
				case "bvsub":
					r = exInt{T: Sub(a.T, b.T), Lo: new(big.Int).Sub(a.Lo, b.Hi), Hi: new(big.Int).Sub(a.Hi, b.Lo),
						A: affSum(affOf(a.T, a.A), big.NewInt(1), affOf(b.T, b.A), big.NewInt(-1))}
				default:
					var c *big.Int
					var o exInt
					switch {
					case a.Lo.Cmp(a.Hi) == 0:
						c, o = a.Lo, b
					case b.Lo.Cmp(b.Hi) == 0:
						c, o = b.Lo, a
					default:
						e.fail("non-linear bvmul")
						return
					}
					x, y := new(big.Int).Mul(c, o.Lo), new(big.Int).Mul(c, o.Hi)
					if x.Cmp(y) > 0 {
						x, y = y, x
					}
					r = exInt{T: mulBig(c, o.T), Lo: x, Hi: y, A: affScale(o.A, c)}
				}
				if r.Lo.Cmp(r.Hi) == 0 {
					r = exIntConst(r.Lo)
				}
				kk(exWrap(r, w, signed), s3)
			})
		})
	case "bvneg":
		e.bv(t.Args[0], signed, st, func(a exInt, s2 *exState) {
			r := exInt{T: Neg(a.T), Lo: new(big.Int).Neg(a.Hi), Hi: new(big.Int).Neg(a.Lo), A: affScale(a.A, big.NewInt(-1))}
			if r.Lo.Cmp(r.Hi) == 0 {
				r = exIntConst(r.Lo)
			}
			kk(exWrap(r, w, signed), s2)
		})
	case "ite":
		e.boolT(t.Args[0], st, func(c bool, s2 *exState) {
			if c {
				e.bv(t.Args[1], signed, s2, kk)
			} else {
				e.bv(t.Args[2], signed, s2, kk)
			}
		})
	default:
		e.fail("unsupported BV operator %s", t.Op)
	}
}

func (e *exTr) boolT(t *Term, st *exState, k func(bool, *exState)) {
	if e.err != "" {
		return
	}
	switch t.Op {
	case "true":
		k(true, st)
		return
	case "false":
		k(false, st)
		return
	case "not":
		e.boolT(t.Args[0], st, func(c bool, s2 *exState) { k(!c, s2) })
		return
	case "and", "or":
		isAnd := t.Op == "and"
		var step func(i int, st *exState)
		step = func(i int, st *exState) {
			if i == len(t.Args) {
				k(isAnd, st)
				return
			}
			e.boolT(t.Args[i], st, func(c bool, s2 *exState) {
				if c != isAnd {
					k(c, s2)
					return
				}
				step(i+1, s2)
			})
		}
		step(0, st)
		return
	case "ite":
		e.boolT(t.Args[0], st, func(c bool, s2 *exState) {
			if c {
				e.boolT(t.Args[1], s2, k)
			} else {
				e.boolT(t.Args[2], s2, k)
			}
		})
		return
	case "=>":
		e.boolT(t.Args[0], st, func(c bool, s2 *exState) {
			if !c {
				k(true, s2)
				return
			}
			e.boolT(t.Args[1], s2, k)
		})
		return
	case "fp.gt", "fp.geq", "fp.lt", "fp.leq", "fp.eq":
		e.fp(t.Args[0], st, func(a exVal, s2 *exState) {
			e.fp(t.Args[1], s2, func(b exVal, s3 *exState) {
				switch t.Op {
				case "fp.gt":
					e.cmpVals("<", b, a, s3, k)
				case "fp.geq":
					e.cmpVals("<=", b, a, s3, k)
				case "fp.lt":
					e.cmpVals("<", a, b, s3, k)
				case "fp.leq":
					e.cmpVals("<=", a, b, s3, k)
				default:
					e.cmpVals("=", a, b, s3, k)
				}
			})
		})
		return
	case "bvsgt", "bvsge", "bvslt", "bvsle", "bvugt", "bvuge", "bvult", "bvule":
		signed := t.Op[2] == 's'
		e.bv(t.Args[0], signed, st, func(a exInt, s2 *exState) {
			e.bv(t.Args[1], signed, s2, func(b exInt, s3 *exState) {
				av, bvv := exOfInt(a), exOfInt(b)
				switch t.Op[3:] {
				case "gt":
					e.cmpVals("<", bvv, av, s3, k)
				case "ge":
					e.cmpVals("<=", bvv, av, s3, k)
				case "lt":
					e.cmpVals("<", av, bvv, s3, k)
				default:
					e.cmpVals("<=", av, bvv, s3, k)
				}
			})
		})
		return
	case "=":
		if isBV(t.Args[0]) {
			sg := e.eqSigned
			e.bv(t.Args[0], sg, st, func(a exInt, s2 *exState) {
				e.bv(t.Args[1], sg, s2, func(b exInt, s3 *exState) { e.cmpVals("=", exOfInt(a), exOfInt(b), s3, k) })
			})
			return
		}
		if isFP(t.Args[0]) {
			e.fp(t.Args[0], st, func(a exVal, s2 *exState) {
				e.fp(t.Args[1], s2, func(b exVal, s3 *exState) { e.cmpVals("=", a, b, s3, k) })
			})
			return
		}
	}
	e.fail("unsupported boolean operator %s", t.Op)
}

// exactLemma: the cases in which `assume` holds and `goal` does not, each a
// conjunction of linear integer constraints; the lemma holds iff their
// disjunction is unsatisfiable. X is the integer input (value of the BV
// variable x under its signedness).
type exactResult struct {
	X         *Term
	Range     *Term
	Cases     []*Term // one conjunction per refuting path case
	All       []*Term // every path case on which the assumptions hold
	DomLo     *big.Int // hull of the input codes the assumptions admit
	DomHi     *big.Int
	PathCases int     // path cases enumerated (including those where the goal holds)
	Roundings int
	Err       string
}

func exactLemma(ctx *Ctx, xvar *Term, width int, signed bool, assume []*Term, goal *Term) *exactResult {
	return exactLemmaDom(ctx, xvar, width, signed, assume, goal, nil)
}

// exactAdmits: do the assumptions hold at the single input code c? (the enumeration with the
// input range collapsed to c decides every comparison on the input)
func exactAdmits(xvar *Term, width int, signed bool, assume []*Term, c *big.Int) bool {
	r := exactLemmaDom(NewCtx(), xvar, width, signed, assume, True, c)
	return r.Err == "" && len(r.All) > 0
}

func exactLemmaDom(ctx *Ctx, xvar *Term, width int, signed bool, assume []*Term, goal *Term, point *big.Int) *exactResult {
	tr := newExTr(ctx)
	X := ctx.Const("X", SInt)
	tr.varBV[xvar.Op] = X
	tr.sgn[xvar.Op] = signed
	tr.eqSigned = signed
	lo, hi := big.NewInt(0), new(big.Int).Sub(pow2(width), big.NewInt(1))
	if signed {
		lo, hi = new(big.Int).Neg(pow2(width-1)), new(big.Int).Sub(pow2(width-1), big.NewInt(1))
	}
	if point != nil {
		if point.Cmp(lo) < 0 || point.Cmp(hi) > 0 {
			return &exactResult{X: X}
		}
		lo, hi = point, point
	}
	tr.varLo[xvar.Op], tr.varHi[xvar.Op] = lo, hi
	res := &exactResult{X: X, Range: And(Le(IntBig(lo), X), Le(X, IntBig(hi)))}
	st := &exState{memo: map[string]interface{}{}, xlo: lo, xhi: hi}
	leaves := 0
	tr.boolT(And(assume...), st, func(a bool, s2 *exState) {
		if !a {
			return
		}
		if res.DomLo == nil || s2.xlo.Cmp(res.DomLo) < 0 {
			res.DomLo = s2.xlo
		}
		if res.DomHi == nil || s2.xhi.Cmp(res.DomHi) > 0 {
			res.DomHi = s2.xhi
		}
		tr.boolT(goal, s2, func(g bool, s3 *exState) {
			leaves++
			res.All = append(res.All, And(s3.asserts...))
			if !g {
				res.Cases = append(res.Cases, And(s3.asserts...))
			}
		})
	})
	res.PathCases = leaves
	res.Roundings = tr.nRound
	res.Err = tr.err
	return res
}
