package main

// Frame theory. In "axioms" theory bi/fdiv/cdiv/chanOf/frameOf are
// uninterpreted and the axioms below are assumed in every obligation of the
// unit; each axiom is itself an obligation (lemma/frames/<name>) proved under
// the arithmetic definitions (theory "defined"), so nothing is assumed that
// is not discharged.

type axiom struct {
	name string
	mk   func(u *Unit) *Term
}

func bv(n string) *Term { return &Term{Op: n, Sort: SInt} }

var frameAxiomList = []axiom{
	{"bi-split", func(u *Unit) *Term {
		ch, c, i := bv("ch?"), bv("c?"), bv("i?")
		t := u.specBI(ch, c, i)
		body := And(Eq(t, Add(u.specBI(ch, IntLit(0), i), c)), Eq(u.specBI(ch, IntLit(0), IntLit(0)), IntLit(0)))
		return fa([]*Term{ch, c, i}, body, u, []*Term{t})
	}},
	{"bi-mono", func(u *Unit) *Term {
		ch, i, j := bv("ch?"), bv("i?"), bv("j?")
		a, b := u.specBI(ch, IntLit(0), i), u.specBI(ch, IntLit(0), j)
		body := Imp(And(Ge(ch, IntLit(1)), Lt(i, j)), Le(Add(a, ch), b))
		return fa([]*Term{ch, i, j}, body, u, []*Term{a, b})
	}},
	{"bi-degenerate", func(u *Unit) *Term {
		ch, i := bv("ch?"), bv("i?")
		t := u.specBI(ch, IntLit(0), i)
		body := And(Imp(Eq(ch, IntLit(0)), Eq(t, IntLit(0))), Imp(Eq(ch, IntLit(1)), Eq(t, i)))
		return fa([]*Term{ch, i}, body, u, []*Term{t})
	}},
	{"fdiv", func(u *Unit) *Term {
		n, ch := bv("n?"), bv("ch?")
		k := u.specFn("fdiv", n, ch)
		b := u.specBI(ch, IntLit(0), k)
		body := Imp(And(Ge(ch, IntLit(1)), Ge(n, IntLit(0))), And(Ge(k, IntLit(0)), Le(b, n), Lt(n, Add(b, ch))))
		return fa([]*Term{n, ch}, body, u, []*Term{k})
	}},
	{"cdiv", func(u *Unit) *Term {
		n, ch := bv("n?"), bv("ch?")
		k := u.specFn("cdiv", n, ch)
		b := u.specBI(ch, IntLit(0), k)
		body := Imp(And(Ge(ch, IntLit(1)), Ge(n, IntLit(0))), And(Ge(k, IntLit(0)), Lt(Sub(b, ch), n), Le(n, b)))
		return fa([]*Term{n, ch}, body, u, []*Term{k})
	}},
	{"chan-frame-cover", func(u *Unit) *Term {
		ch, p := bv("ch?"), bv("p?")
		c := u.specFn("chanOf", ch, p)
		f := u.specFn("frameOf", ch, p)
		body := Imp(And(Ge(ch, IntLit(1)), Ge(p, IntLit(0))), And(Le(IntLit(0), c), Lt(c, ch), Ge(f, IntLit(0)), Eq(u.specBI(ch, c, f), p)))
		return faMulti([]*Term{ch, p}, body, u, [][]*Term{{c}, {f}})
	}},
	{"chan-frame-inj", func(u *Unit) *Term {
		ch, c, i := bv("ch?"), bv("c?"), bv("i?")
		t := u.specBI(ch, c, i)
		co := u.specFn("chanOf", ch, t)
		fo := u.specFn("frameOf", ch, t)
		body := Imp(And(Ge(ch, IntLit(1)), Le(IntLit(0), c), Lt(c, ch), Ge(i, IntLit(0))), And(Eq(co, c), Eq(fo, i)))
		return faMulti([]*Term{ch, c, i}, body, u, [][]*Term{{co}, {fo}})
	}},
}

func fa(vars []*Term, body *Term, u *Unit, pat []*Term) *Term {
	if u.theory == "defined" {
		return Forall(vars, body)
	}
	return Forall(vars, body, pat)
}

func faMulti(vars []*Term, body *Term, u *Unit, pats [][]*Term) *Term {
	if u.theory == "defined" {
		return Forall(vars, body)
	}
	return Forall(vars, body, pats...)
}

func (u *Unit) frameAxioms() []*Term {
	var out []*Term
	for _, a := range frameAxiomList {
		out = append(out, a.mk(u))
	}
	return out
}

// frameLemmaObligations: each axiom proved under the definitions.
func frameLemmaObligations(props []string) []*Obligation {
	var out []*Obligation
	for _, a := range frameAxiomList {
		u := &Unit{ctx: NewCtx(), theory: "defined"}
		out = append(out, &Obligation{Name: "lemma/frames/" + a.name, Kind: "lemma", Props: props, Goal: a.mk(u), Ctx: u.ctx, Fn: "lemma/frames"})
	}
	return out
}

// ---- hint lemmas: instantiated explicitly by `hint name(args)` clauses ---------------------

type hintLemma struct {
	name  string
	arity int
	mk    func(u *Unit, a []*Term) *Term
}

var hintLemmas = map[string]*hintLemma{
	"bi-sub": {"bi-sub", 3, func(u *Unit, a []*Term) *Term {
		return Eq(u.specBI(a[0], IntLit(0), Sub(a[1], a[2])), Sub(u.specBI(a[0], IntLit(0), a[1]), u.specBI(a[0], IntLit(0), a[2])))
	}},
	"bi-add": {"bi-add", 3, func(u *Unit, a []*Term) *Term {
		return Eq(u.specBI(a[0], IntLit(0), Add(a[1], a[2])), Add(u.specBI(a[0], IntLit(0), a[1]), u.specBI(a[0], IntLit(0), a[2])))
	}},
	"mul-div": {"mul-div", 2, func(u *Unit, a []*Term) *Term {
		b := u.specBI(a[0], IntLit(0), a[1])
		return Imp(Ge(a[0], IntLit(1)), And(Eq(u.specFn("fdiv", b, a[0]), a[1]), Imp(Ge(a[1], IntLit(0)), Eq(u.specFn("cdiv", b, a[0]), a[1]))))
	}},
	"fdiv-def": {"fdiv-def", 2, func(u *Unit, a []*Term) *Term {
		n, ch := a[0], a[1]
		k := u.specFn("fdiv", n, ch)
		b := u.specBI(ch, IntLit(0), k)
		return Imp(And(Ge(ch, IntLit(1)), Ge(n, IntLit(0))), And(Ge(k, IntLit(0)), Le(b, n), Lt(n, Add(b, ch))))
	}},
	"cdiv-def": {"cdiv-def", 2, func(u *Unit, a []*Term) *Term {
		n, ch := a[0], a[1]
		k := u.specFn("cdiv", n, ch)
		b := u.specBI(ch, IntLit(0), k)
		return Imp(And(Ge(ch, IntLit(1)), Ge(n, IntLit(0))), And(Ge(k, IntLit(0)), Lt(Sub(b, ch), n), Le(n, b), Imp(Eq(n, IntLit(0)), Eq(k, IntLit(0)))))
	}},
	"cdiv-aligned": {"cdiv-aligned", 2, func(u *Unit, a []*Term) *Term {
		// n a whole number of frames: cdiv = fdiv
		n, ch := a[0], a[1]
		return Imp(And(Ge(ch, IntLit(1)), Ge(n, IntLit(0)), Eq(n, u.specBI(ch, IntLit(0), u.specFn("fdiv", n, ch)))), Eq(u.specFn("cdiv", n, ch), u.specFn("fdiv", n, ch)))
	}},
	"cdiv-mono": {"cdiv-mono", 3, func(u *Unit, a []*Term) *Term {
		return Imp(And(Ge(a[2], IntLit(1)), Le(IntLit(0), a[0]), Le(a[0], a[1])), Le(u.specFn("cdiv", a[0], a[2]), u.specFn("cdiv", a[1], a[2])))
	}},
	"align-covers": {"align-covers", 3, func(u *Unit, a []*Term) *Term {
		// a whole number of frames L that fits into n also fits into n rounded down to whole frames
		n, ch, l := a[0], a[1], a[2]
		return Imp(And(Ge(ch, IntLit(1)), Ge(l, IntLit(0)), Eq(l, u.specBI(ch, IntLit(0), u.specFn("fdiv", l, ch))), Le(l, n)),
			Le(l, u.specBI(ch, IntLit(0), u.specFn("fdiv", n, ch))))
	}},
	"bi-comm": {"bi-comm", 2, func(u *Unit, a []*Term) *Term {
		return Eq(u.specBI(a[0], IntLit(0), a[1]), u.specBI(a[1], IntLit(0), a[0]))
	}},
	"fdiv-ge": {"fdiv-ge", 3, func(u *Unit, a []*Term) *Term {
		// k whole frames fit into n: k <= floor(n/ch)
		n, ch, k := a[0], a[1], a[2]
		return Imp(And(Ge(ch, IntLit(1)), Ge(n, IntLit(0)), Le(u.specBI(ch, IntLit(0), k), n)), Le(k, u.specFn("fdiv", n, ch)))
	}},
	"aligned-ge": {"aligned-ge", 2, func(u *Unit, a []*Term) *Term {
		// a non-empty whole number of frames is at least one frame
		n, ch := a[0], a[1]
		return Imp(And(Ge(ch, IntLit(1)), Ge(n, IntLit(1)), Eq(n, u.specBI(ch, IntLit(0), u.specFn("fdiv", n, ch)))), Le(ch, n))
	}},
	"bi-zero": {"bi-zero", 1, func(u *Unit, a []*Term) *Term {
		return Eq(u.specBI(a[0], IntLit(0), IntLit(0)), IntLit(0))
	}},
	"bi-nonneg": {"bi-nonneg", 2, func(u *Unit, a []*Term) *Term {
		return Imp(And(Ge(a[0], IntLit(0)), Ge(a[1], IntLit(0))), Ge(u.specBI(a[0], IntLit(0), a[1]), IntLit(0)))
	}},
	"bi-le": {"bi-le", 3, func(u *Unit, a []*Term) *Term {
		return Imp(And(Ge(a[0], IntLit(0)), Le(a[1], a[2])), Le(u.specBI(a[0], IntLit(0), a[1]), u.specBI(a[0], IntLit(0), a[2])))
	}},
	"bi-lt-inv": {"bi-lt-inv", 3, func(u *Unit, a []*Term) *Term {
		// bi(ch,0,i) <= bi(ch,0,j) with ch >= 1 implies i <= j
		return Imp(And(Ge(a[0], IntLit(1)), Le(u.specBI(a[0], IntLit(0), a[1]), u.specBI(a[0], IntLit(0), a[2]))), Le(a[1], a[2]))
	}},
}

func hintLemmaObligations(props []string) []*Obligation {
	var out []*Obligation
	var names []string
	for n := range hintLemmas {
		names = append(names, n)
	}
	sortStrings(names)
	for _, n := range names {
		l := hintLemmas[n]
		u := &Unit{ctx: NewCtx(), theory: "defined"}
		var vars []*Term
		for i := 0; i < l.arity; i++ {
			vars = append(vars, bv("a"+string(rune('0'+i))+"?"))
		}
		out = append(out, &Obligation{Name: "lemma/arith/" + n, Kind: "lemma", Props: props, Goal: Forall(vars, l.mk(u, vars)), Ctx: u.ctx, Fn: "lemma/arith"})
	}
	return out
}

// sliceLemmaObligations: consequences of the Slice contract (window clause)
// under the arithmetic definitions: reported lengths, shared storage, composition.
func sliceLemmaObligations(props []string) []*Obligation {
	var out []*Obligation
	mkU := func() (*Unit, *Term, *Term, *Term, *Term, *Term) {
		u := &Unit{ctx: NewCtx(), theory: "defined"}
		return u, u.ctx.Const("ch", SInt), u.ctx.Const("p", SInt), u.ctx.Const("K", SInt), u.ctx.Const("s", SInt), u.ctx.Const("e", SInt)
	}
	{
		u, ch, _, K, s, e := mkU()
		// parent: cap = ch*K; view: len = ch*e - ch*s, cap' = ch*K - ch*s
		assume := []*Term{Ge(ch, IntLit(1)), Le(IntLit(0), s), Le(s, e), Le(e, K)}
		lenV := Sub(u.specBI(ch, IntLit(0), e), u.specBI(ch, IntLit(0), s))
		capV := Sub(u.specBI(ch, IntLit(0), K), u.specBI(ch, IntLit(0), s))
		out = append(out, &Obligation{Name: "lemma/slice/reported-length", Kind: "lemma", Props: props, Ctx: u.ctx, Fn: "lemma/slice", Assume: assume,
			Goal: Eq(u.specFn("cdiv", lenV, ch), Sub(e, s))})
		out = append(out, &Obligation{Name: "lemma/slice/reported-capacity", Kind: "lemma", Props: props, Ctx: u.ctx, Fn: "lemma/slice", Assume: assume,
			Goal: Eq(u.specFn("fdiv", capV, ch), Sub(K, s))})
	}
	{
		u, ch, p, _, s, _ := mkU()
		c, i := u.ctx.Const("c", SInt), u.ctx.Const("i", SInt)
		ptrV := Add(p, u.specBI(ch, IntLit(0), s))
		out = append(out, &Obligation{Name: "lemma/slice/shared-storage", Kind: "lemma", Props: props, Ctx: u.ctx, Fn: "lemma/slice",
			Goal: Eq(Add(ptrV, u.specBI(ch, c, i)), Add(p, u.specBI(ch, c, Add(s, i))))})
	}
	{
		u, ch, p, K, s1, e1 := mkU()
		s2, e2 := u.ctx.Const("s2", SInt), u.ctx.Const("e2", SInt)
		_ = e1
		// window of Slice(Slice(b,s1,e1),s2,e2) = window of Slice(b,s1+s2,s1+e2)
		ptr1 := Add(p, u.specBI(ch, IntLit(0), s1))
		cap1 := Sub(u.specBI(ch, IntLit(0), K), u.specBI(ch, IntLit(0), s1))
		ptr2 := Add(ptr1, u.specBI(ch, IntLit(0), s2))
		len2 := Sub(u.specBI(ch, IntLit(0), e2), u.specBI(ch, IntLit(0), s2))
		cap2 := Sub(cap1, u.specBI(ch, IntLit(0), s2))
		ptrD := Add(p, u.specBI(ch, IntLit(0), Add(s1, s2)))
		lenD := Sub(u.specBI(ch, IntLit(0), Add(s1, e2)), u.specBI(ch, IntLit(0), Add(s1, s2)))
		capD := Sub(u.specBI(ch, IntLit(0), K), u.specBI(ch, IntLit(0), Add(s1, s2)))
		out = append(out, &Obligation{Name: "lemma/slice/composition", Kind: "lemma", Props: props, Ctx: u.ctx, Fn: "lemma/slice",
			Goal: And(Eq(ptr2, ptrD), Eq(len2, lenD), Eq(cap2, capD))})
	}
	return out
}
