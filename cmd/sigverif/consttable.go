package main

import (
	"go/ast"
	"go/constant"
	"go/token"
	"go/types"
	"sync"
)

// Read-only package-level lookup tables (DESIGN §3.1): `var t = map[K]V{c1: v1, ...}` with constant
// keys and values, where every use of t in the package is an index expression in value position
// (never assigned through, deleted from, ranged over, passed on or address-taken). t[k] with a key
// that is a constant of the instantiation is then the matching value or V's zero value.

type constTable struct {
	obj     *types.Var
	lit     *ast.CompositeLit
	keys    []constant.Value
	vals    []ast.Expr
	valType types.Type
	why     string // non-empty: not a constant table
}

var (
	constTableMu    sync.Mutex
	constTableCache = map[*types.Var]*constTable{}
)

func (p *Program) constTableOf(id *ast.Ident) *constTable {
	v, ok := p.Info.Uses[id].(*types.Var)
	if !ok {
		return nil
	}
	return p.constTableOfVar(v)
}

func (p *Program) constTableOfVar(v *types.Var) *constTable {
	if v.Pkg() == nil || v.Parent() != v.Pkg().Scope() {
		return nil
	}
	mt, ok := v.Type().Underlying().(*types.Map)
	if !ok {
		return nil
	}
	constTableMu.Lock()
	defer constTableMu.Unlock()
	if t, ok := constTableCache[v]; ok {
		return t
	}
	t := &constTable{obj: v, valType: mt.Elem()}
	constTableCache[v] = t
	// declaration
	for _, f := range p.Pkg.Syntax {
		for _, d := range f.Decls {
			gd, ok := d.(*ast.GenDecl)
			if !ok || gd.Tok != token.VAR {
				continue
			}
			for _, sp := range gd.Specs {
				vs := sp.(*ast.ValueSpec)
				for i, n := range vs.Names {
					if p.Info.Defs[n] == v && i < len(vs.Values) {
						if cl, ok := vs.Values[i].(*ast.CompositeLit); ok {
							t.lit = cl
						}
					}
				}
			}
		}
	}
	if t.lit == nil {
		t.why = "not initialised by a composite literal"
		return t
	}
	for _, el := range t.lit.Elts {
		kv, ok := el.(*ast.KeyValueExpr)
		if !ok {
			t.why = "element without key"
			return t
		}
		ktv, ok1 := p.Info.Types[kv.Key]
		vtv, ok2 := p.Info.Types[kv.Value]
		if !ok1 || ktv.Value == nil || !ok2 || vtv.Value == nil {
			t.why = "non-constant key or value"
			return t
		}
		t.keys = append(t.keys, ktv.Value)
		t.vals = append(t.vals, kv.Value)
	}
	// every use is a read t[k]
	for _, f := range p.Pkg.Syntax {
		var stack []ast.Node
		ast.Inspect(f, func(n ast.Node) bool {
			if n == nil {
				stack = stack[:len(stack)-1]
				return true
			}
			if id, ok := n.(*ast.Ident); ok && p.Info.Uses[id] == v && t.why == "" {
				var par, gpar ast.Node
				if len(stack) >= 1 {
					par = stack[len(stack)-1]
				}
				if len(stack) >= 2 {
					gpar = stack[len(stack)-2]
				}
				ix, ok := par.(*ast.IndexExpr)
				if !ok || ix.X != ast.Expr(id) {
					t.why = "used other than as t[k]"
				} else {
					switch g := gpar.(type) {
					case *ast.AssignStmt:
						for _, l := range g.Lhs {
							if l == ast.Expr(ix) {
								t.why = "assigned through"
							}
						}
					case *ast.IncDecStmt:
						t.why = "modified"
					case *ast.UnaryExpr:
						if g.Op == token.AND {
							t.why = "address of an element taken"
						}
					}
				}
			}
			stack = append(stack, n)
			return true
		})
	}
	return t
}

// reflectKindOf: the reflect.Kind (its numeric value) of a basic type.
func reflectKindOf(t types.Type) (int64, bool) {
	b, ok := t.Underlying().(*types.Basic)
	if !ok {
		return 0, false
	}
	switch b.Kind() {
	case types.Bool:
		return 1, true
	case types.Int:
		return 2, true
	case types.Int8:
		return 3, true
	case types.Int16:
		return 4, true
	case types.Int32:
		return 5, true
	case types.Int64:
		return 6, true
	case types.Uint:
		return 7, true
	case types.Uint8:
		return 8, true
	case types.Uint16:
		return 9, true
	case types.Uint32:
		return 10, true
	case types.Uint64:
		return 11, true
	case types.Uintptr:
		return 12, true
	case types.Float32:
		return 13, true
	case types.Float64:
		return 14, true
	}
	return 0, false
}

// staticKindCall recognises reflect.TypeOf(x).Kind() (also reflect.ValueOf(x).Kind()) for an x whose
// static type is concrete in this instantiation, and returns the kind.
func (u *Unit) staticKindCall(e ast.Expr) (constant.Value, bool) {
	call, ok := ast.Unparen(e).(*ast.CallExpr)
	if !ok || len(call.Args) != 0 {
		return nil, false
	}
	sel, ok := call.Fun.(*ast.SelectorExpr)
	if !ok || sel.Sel.Name != "Kind" {
		return nil, false
	}
	inner, ok := ast.Unparen(sel.X).(*ast.CallExpr)
	if !ok || len(inner.Args) != 1 {
		return nil, false
	}
	switch u.pkgFuncName(inner.Fun) {
	case "reflect.TypeOf", "reflect.ValueOf":
	default:
		return nil, false
	}
	st := u.staticType(inner.Args[0])
	if st == nil {
		return nil, false
	}
	t := u.conc(st)
	if _, isIface := t.Underlying().(*types.Interface); isIface {
		return nil, false
	}
	k, ok := reflectKindOf(t)
	if !ok {
		return nil, false
	}
	return constant.MakeInt64(k), true
}

// constKey: the key expression as a constant of this instantiation.
func (u *Unit) constKey(e ast.Expr) (constant.Value, bool) {
	if tv, ok := u.prog.Info.Types[e]; ok && tv.Value != nil {
		return tv.Value, true
	}
	return u.staticKindCall(e)
}
