package main

import (
	"fmt"
	"go/ast"
	"go/types"
	"sort"
	"strings"
)

func newUnit(prog *Program, cf *ContractFile, fi *FuncInfo, ct *Contract, inst *Inst, mode string) *Unit {
	u := &Unit{prog: prog, cf: cf, fn: fi, ct: ct, inst: inst, ctx: NewCtx(), mode: mode, theory: ct.Theory,
		initMem: map[string]*Term{}, entry: map[string]Value{}, tvars: map[string]types.Type{}, roles: map[string]string{},
		bdKnown: map[string]*Term{}, loopVar: map[int]types.Object{}, kernels: map[int]*Kernel{},
		curTsub: inst.Map, hintsUsed: map[string]bool{}, headCounter: map[int]int{}, loopPre: map[int]*State{}, calls: map[string]bool{}, loopsSeen: map[int]bool{}, havocked: map[string]bool{}}
	return u
}

func (u *Unit) siteScope(s string) { u.sitePrefix = s }

func (u *Unit) fnEnv(st *State) *SpecEnv {
	env := &SpecEnv{u: u, cur: st, old: u.old, vars: map[string]Value{}, tvars: u.tvars}
	for k, v := range u.entry {
		env.vars[k] = v
	}
	for _, r := range u.results {
		if v, ok := st.vars[r]; ok {
			env.vars[r.Name()] = v
			env.vars["$ret"] = v
		}
	}
	for k, v := range u.lets {
		env.vars[k] = v
	}
	env.kord = st.kord
	return env
}

// verifyFunc symbolically executes the function body against its contract and
// collects the obligations.
func (u *Unit) verifyFunc() {
	fi, ct := u.fn, u.ct
	st := &State{vars: map[types.Object]Value{}, mem: map[string]*Term{}}
	// bind parameters
	var objs []*types.Var
	if fi.Sig.Recv() != nil {
		objs = append(objs, fi.Sig.Recv())
	}
	for i := 0; i < fi.Sig.Params().Len(); i++ {
		objs = append(objs, fi.Sig.Params().At(i))
	}
	if len(ct.Params) != len(objs) {
		u.unbound = append(u.unbound, fmt.Sprintf("contract of %s binds %d parameters but the function has %d", fi.Key, len(ct.Params), len(objs)))
		return
	}
	tn := ct.TNames
	if len(tn) == 0 {
		for _, tp := range fi.TParam {
			tn = append(tn, tp.Obj().Name())
		}
	}
	for i, n := range tn {
		if i < len(fi.TParam) {
			u.tvars[n] = u.inst.Map[fi.TParam[i]]
		}
	}
	u.inputs = map[string]string{}
	for i, o := range objs {
		var v Value
		if _, isI := o.Type().Underlying().(*types.Interface); isI && !isTypeParam(o.Type()) {
			// interface parameter: bound by a ghost `let` in the contract (see alignCapacity)
			// (otherwise it wraps an arbitrary comparable value)
			inner := Value{K: KInt, T: types.Typ[types.Int], Term: u.ctx.Fresh(ct.Params[i]+".dyn", SInt)}
			v = Value{K: KIface, T: o.Type(), Inner: &inner}
		} else {
			v = u.freshValue(st, o.Type(), ct.Params[i])
		}
		st.vars[o] = v
		u.entry[ct.Params[i]] = v
	}
	// named results start as zero values
	for i := 0; i < fi.Sig.Results().Len(); i++ {
		r := fi.Sig.Results().At(i)
		if r.Name() != "" && r.Name() != "_" {
			st.vars[r] = u.zeroValue(st, r.Type())
			u.results = append(u.results, r)
		}
	}
	// global model invariants
	u.old = st // temporarily, for env construction
	env := u.fnEnv(st)
	// ghost lets
	u.lets = map[string]Value{}
	for _, l := range ct.Lets {
		v := u.evalSpecLet(env, l)
		u.lets[l.Label] = v
		env.vars[l.Label] = v
		// an interface parameter bound by a let takes that value
		for i, o := range objs {
			if ct.Params[i] == l.Label {
				inner := v
				st.vars[o] = Value{K: KIface, T: o.Type(), Inner: &inner}
				u.entry[l.Label] = v
			}
		}
	}
	// requires
	for _, r := range ct.Requires {
		// wf(x) in requires fixes the bit depth of x
		u.noteWf(r.Expr, env)
	}
	for _, r := range ct.Requires {
		st.Assume(u.evalSpecBool(env, r.Expr))
	}
	st.Assume(u.modelInvariants(st))
	if u.variant != nil {
		st.Assume(u.evalSpecBool(env, u.variant.Expr))
	} else {
		// the base run leaves out the inputs named by base-excludes (zero channel counts, which are
		// outside the quantifier of the general properties); each variant run proves the whole
		// contract again under its assumption, for its own property, so a defect confined to
		// zero-channel buffers alarms C20 only
		for _, v := range ct.BaseExcludes {
			st.Assume(Not(u.evalSpecBool(env, v.Expr)))
		}
	}
	for _, h := range ct.Hints {
		st.Assume(u.evalHint(env, h))
	}
	for _, h := range ct.RndHints {
		u.rndHints = append(u.rndHints, toReal(u.evalSpec(env, h.Expr).Term))
	}
	u.old = st.clone()
	// cover: the precondition is satisfiable
	u.obls = append(u.obls, &Obligation{Name: u.name() + "/cover:requires", Kind: "cover", Props: ct.Props,
		Assume: append([]*Term{}, st.assume...), Cover: true, Ctx: u.ctx, Fn: fi.Key, InstName: u.inst.Name})

	if fi.Decl.Body == nil {
		u.errorf("function %s has no body", fi.Key)
		return
	}
	// static loop ordinals: source order
	u.loopOrdOf = map[ast.Node]int{}
	nl := 0
	ast.Inspect(fi.Decl.Body, func(n ast.Node) bool {
		switch l := n.(type) {
		case *ast.ForStmt:
			nl++
			u.loopOrdOf[l.Body] = nl
		case *ast.RangeStmt:
			nl++
			u.loopOrdOf[l] = nl
		case *ast.FuncLit:
			return false
		}
		return true
	})
	u.nLoops = nl
	falls := u.execBlock(st, fi.Decl.Body.List)
	for _, f := range falls {
		var rets []Value
		for _, r := range u.results {
			rets = append(rets, f.vars[r])
		}
		if fi.Sig.Results().Len() > 0 && len(u.results) == 0 {
			u.errorf("function %s falls off the end without return", fi.Key)
		}
		u.exits = append(u.exits, &Exit{st: f, rets: rets})
	}
	// exits
	nNormal, nPanic := 0, 0
	for _, ex := range u.exits {
		if ex.panic {
			nPanic++
			u.checkPanicExit(ex, nPanic)
		} else {
			nNormal++
			u.checkNormalExit(ex, nNormal)
		}
	}
	// loops declared in the contract but absent from the code
	for ord := range ct.Loops {
		if ord > u.nLoops {
			// an invariant without a loop generates no obligation and justifies nothing: the
			// function's postconditions still have to be proved from the code as it is
			u.notes = append(u.notes, fmt.Sprintf("contract of %s declares loop %d which the function does not have (unused)", fi.Key, ord))
		}
	}
}

func (u *Unit) evalSpecLet(env *SpecEnv, l *Clause) Value {
	// let s = &b.data  (b a fresh buffer of element type T)  is written: let s = dataPtrOf(T)
	return u.evalSpec(env, l.Expr)
}

// noteWf records bit-depth constants for parameters constrained by wf().
func (u *Unit) noteWf(e *SExpr, env *SpecEnv) {
	if e.Kind == "bin" && e.Name == "&&" {
		u.noteWf(e.Args[0], env)
		u.noteWf(e.Args[1], env)
		return
	}
	if e.Kind == "call" && e.Name == "wf" && len(e.Args) == 1 {
		v := u.evalSpec(env, e.Args[0])
		if v.K == KBuf {
			u.bdKnown[v.Term.String()] = BVLit64(int64(u.widthOf(v.Elem)), 8)
		}
	}
}

// modelInvariants: facts of the memory model itself.
func (u *Unit) modelInvariants(st *State) *Term {
	var cs []*Term
	for _, k := range sortedKeysT(u.initMem) {
		if strings.HasPrefix(k, "brk:") || strings.HasPrefix(k, "obrk:") || strings.HasPrefix(k, "sbrk:") || k == "pbrk" {
			cs = append(cs, Ge(u.initMem[k], IntLit(0)))
		}
		if k == "allocs" {
			cs = append(cs, Ge(u.initMem[k], IntLit(0)))
		}
	}
	return And(cs...)
}

func sortedKeysT(m map[string]*Term) []string {
	var ks []string
	for k := range m {
		ks = append(ks, k)
	}
	sort.Strings(ks)
	return ks
}

func (u *Unit) checkNormalExit(ex *Exit, n int) {
	st := ex.st
	ct := u.ct
	env := u.fnEnv(st)
	if len(ex.rets) == 1 {
		env.vars["result"] = ex.rets[0]
	}
	for i, r := range ex.rets {
		env.vars[fmt.Sprintf("result%d", i+1)] = r
	}
	if ct.Panics != nil {
		oenv := *env
		oenv.cur = u.old
		p := u.evalSpecBool(&oenv, ct.Panics.Expr)
		u.oblige(st, "panics-iff", fmt.Sprintf("panics-iff:%s:must-panic:exit%d", clauseLabel(ct.Panics, 0), n), ct.Panics.props(ct), Not(p))
	}
	for i, en := range ct.Ensures {
		g := u.evalSpecBool(env, en.Expr)
		u.oblige(st, "post", fmt.Sprintf("post:%s:exit%d", clauseLabel(en, i), n), en.props(ct), g)
	}
	// allocation effect (C18): unless the contract lists allocs as modifiable, the
	// allocation counter is unchanged on this path
	if !u.declaredModifies("allocs") {
		cur := u.comp(st, "allocs", SInt)
		old := u.comp(u.old, "allocs", SInt)
		u.oblige(st, "allocs", fmt.Sprintf("alloc-free:exit%d", n), []string{"C18"}, Eq(cur, old))
	}
	// write footprint (C19): storage and headers of every parameter's element type that
	// the contract does not list as modifiable are bit-for-bit unchanged
	touched := map[string]bool{}
	for _, pn := range u.ct.Params {
		v, ok := u.entry[pn]
		if !ok {
			continue
		}
		var elem types.Type
		switch v.K {
		case KBuf:
			elem = v.Elem
		case KSlice:
			elem = v.Elem
			if in, ok := v.Elem.(*types.Slice); ok {
				elem = in.Elem()
			}
		case KStruct:
			if b, ok := v.Fields["Buffer"]; ok && b.K == KBuf {
				elem = b.Elem
			}
		}
		if elem == nil {
			continue
		}
		names := []string{"H:" + elemKey(elem)}
		for _, f := range hdrFields {
			names = append(names, f+":"+elemKey(elem))
		}
		for _, name := range names {
			if touched[name] || u.declaredModifies(name) {
				continue
			}
			touched[name] = true
			var cur, old *Term
			if strings.HasPrefix(name, "H:") {
				cur, old = u.heap(st, elem), u.heap(u.old, elem)
			} else {
				f := name[:strings.IndexByte(name, ':')]
				cur, old = u.fld(st, elem, f), u.fld(u.old, elem, f)
			}
			u.oblige(st, "writes-nothing", fmt.Sprintf("writes-nothing:%s:exit%d", compClass(name), n), []string{"C19"}, Eq(cur, old))
		}
	}
	// frame: every component not covered by a modifies class must be unchanged
	for _, name := range st.memKeys() {
		if name == "allocs" || touched[name] {
			continue
		}
		t := st.mem[name]
		o, ok := u.old.mem[name]
		if !ok {
			o, ok = u.initMem[name]
		}
		if !ok || o == t {
			continue
		}
		if u.declaredModifies(name) {
			continue
		}
		u.oblige(st, "modifies", fmt.Sprintf("modifies:%s:exit%d", compClass(name), n), ct.Props, Eq(t, o))
	}
}

// declaredModifies reports whether component name is covered by a modifies
// class of the function under verification.
// declaresClass: the contract's modifies clause lists class mc for the element type with key ek.
func (u *Unit) declaresClass(mc, ek string) bool {
	if u.old == nil {
		return false
	}
	env := u.fnEnv(u.old)
	for m := range u.ct.Modifies {
		c, arg := m, ""
		if i := indexByte(m, '('); i >= 0 {
			c, arg = m[:i], m[i+1:len(m)-1]
		}
		if c != mc || arg == "" {
			continue
		}
		if ae, err := parseSpec(arg); err == nil && elemKey(u.elemOf(env, ae)) == ek {
			return true
		}
	}
	return false
}

func (u *Unit) declaredModifies(name string) bool {
	cls, key := name, ""
	if i := strings.IndexByte(name, ':'); i >= 0 {
		cls, key = name[:i], name[i+1:]
	}
	env := u.fnEnv(u.old)
	for m := range u.ct.Modifies {
		mc, arg := m, ""
		if i := indexByte(m, '('); i >= 0 {
			mc, arg = m[:i], m[i+1:len(m)-1]
		}
		ek := ""
		if arg != "" {
			if ae, err := parseSpec(arg); err == nil {
				ek = elemKey(u.elemOf(env, ae))
			}
		}
		switch mc {
		case "H":
			if cls == "H" && key == ek {
				return true
			}
		case "hdr", "newhdr":
			for _, f := range hdrFields {
				if cls == f && key == ek {
					return true
				}
			}
		case "brk":
			if cls == "brk" && key == ek {
				return true
			}
		case "obj":
			if cls == "obrk" && key == ek {
				return true
			}
		case "allocs":
			if name == "allocs" {
				return true
			}
		case "pool":
			if name == "items" || name == "pbrk" || name == "pnew" || strings.HasPrefix(name, "pcap.") {
				return true
			}
		}
	}
	return false
}

func (u *Unit) checkPanicExit(ex *Exit, n int) {
	ct := u.ct
	if ct.Panics == nil {
		return // already reported as no-panic obligation at the site
	}
	st := ex.st
	env := u.fnEnv(st)
	oenv := *env
	oenv.cur = u.old
	p := u.evalSpecBool(&oenv, ct.Panics.Expr)
	lbl := clauseLabel(ct.Panics, 0)
	props := ct.Panics.props(ct)
	if ex.runtime {
		// an index / slice / allocation failure is a safety matter of the function's own
		// properties, not of the guard clause
		props = ct.Props
	}
	u.oblige(st, "panics-iff", fmt.Sprintf("panics-iff:%s:only-if:%s", lbl, sanitize(ex.note)), props, p)
	// nothing modified before the panic
	for _, name := range st.memKeys() {
		t := st.mem[name]
		o, ok := u.old.mem[name]
		if !ok {
			o, ok = u.initMem[name]
		}
		if !ok || o == t {
			continue
		}
		if name == "allocs" {
			continue
		}
		u.oblige(st, "panics-iff", fmt.Sprintf("panics-iff:%s:unmodified:%s:%s", lbl, compClass(name), sanitize(ex.note)), props, Eq(t, o))
	}
}

// ---- kernels -------------------------------------------------------------------------------

func (u *Unit) kernelFor(ord int) *Kernel {
	if k, ok := u.kernels[ord]; ok {
		return k
	}
	if ord == 0 {
		return nil
	}
	// declared but not yet extracted: create a placeholder (uninterpreted)
	if lc, ok := u.ct.Loops[ord]; ok && lc.Kernel {
		k := &Kernel{Ord: ord, Name: fmt.Sprintf("K%d", ord)}
		k.SrcElem, k.DstElem = u.kernelTypes()
		u.kernels[ord] = k
		// declare signature
		u.ctx.Funs[k.Name] = &FunSig{Name: k.Name, Args: []string{u.elemSort(k.SrcElem)}, Res: u.elemSort(k.DstElem)}
		u.ctx.noteSort(u.elemSort(k.SrcElem))
		u.ctx.noteSort(u.elemSort(k.DstElem))
		return k
	}
	return nil
}

// kernelTypes: source and destination element types of the function's kernel:
// the element types of the contract parameters named src and dst.
func (u *Unit) kernelTypes() (types.Type, types.Type) {
	get := func(n string) types.Type {
		v, ok := u.entry[n]
		if !ok {
			return types.Typ[types.Int8]
		}
		switch v.K {
		case KBuf:
			return v.Elem
		case KSlice:
			if in, ok := v.Elem.(*types.Slice); ok {
				return in.Elem()
			}
			return v.Elem
		}
		return types.Typ[types.Int8]
	}
	return get("src"), get("dst")
}

// extractKernel derives K(x) from the executed loop body: every body path
// must end with exactly one store into the destination heap whose value
// depends only on the one source element read and on loop-invariant format
// constants.
func (u *Unit) extractKernel(ord int, head *State, outs []*State) {
	k := u.kernelFor(ord)
	if k == nil {
		return
	}
	srcE, dstE := k.SrcElem, k.DstElem
	hS := u.heap(head, srcE)
	hD := u.heap(head, dstE)
	x := &Term{Op: "x", Sort: u.elemSort(srcE)}
	fail := func(why string) {
		k.OK = false
		k.Why = why
		u.oblige(head, "kernel-local", fmt.Sprintf("loop%d:kernel-local", ord), u.fnProps(), False)
		u.obls[len(u.obls)-1].Note = why
	}
	if len(outs) == 0 {
		fail("loop body has no fall-through path")
		return
	}
	type pathK struct {
		cond *Term
		val  *Term
	}
	var paths []pathK
	var readTerm *Term
	for _, o := range outs {
		hd := u.heap(o, dstE)
		if hd.Op != "store" || hd.Args[0] != hD {
			fail("a body path does not end with exactly one store into the destination")
			return
		}
		val := hd.Args[2]
		cond := And(o.branch...)
		// find heap reads
		reads := map[string]*Term{}
		findSelects(val, reads)
		findSelects(cond, reads)
		for _, r := range reads {
			as := r.Args[0].Sort
			if as != hS.Sort && as != hD.Sort {
				continue // header arrays (formats), not sample storage
			}
			if r.Args[0] == hS {
				if readTerm == nil {
					readTerm = r
				} else if readTerm.String() != r.String() {
					fail("the stored value reads more than one source position: " + r.String())
					return
				}
			} else {
				fail("the stored value reads sample storage other than the source at loop entry: " + r.String())
				return
			}
		}
		paths = append(paths, pathK{cond, val})
	}
	sub := map[string]*Term{}
	if readTerm != nil {
		sub[readTerm.String()] = x
	}
	var body *Term
	for i := len(paths) - 1; i >= 0; i-- {
		v := Subst(paths[i].val, sub)
		c := Subst(paths[i].cond, sub)
		if body == nil {
			body = v
		} else {
			body = Ite(c, v, body)
		}
	}
	// the kernel may not mention loop-carried symbols (induction variables, havocked heaps)
	bad := ""
	var walk func(t *Term)
	walk = func(t *Term) {
		if len(t.Args) == 0 && t.Decl {
			if i := strings.LastIndexByte(t.Op, '!'); i >= 0 { // fresh symbols created at or after the loop head
				var n int
				fmt.Sscan(t.Op[i+1:], &n)
				if n > u.headCounter[ord] {
					bad = t.Op
				}
			}
		}
		for _, a := range t.Args {
			walk(a)
		}
	}
	walk(body)
	if bad != "" {
		fail("the stored value depends on loop-carried state (" + bad + ")")
		return
	}
	k.X, k.Body, k.OK = x, body, true
	u.ctx.Define(k.Name, u.elemSort(dstE), []*Term{x}, body)
	// the store must be at destination position i (checked by the invariant); kernel-local passes
	u.oblige(head, "kernel-local", fmt.Sprintf("loop%d:kernel-local", ord), u.fnProps(), True)
}

func findSelects(t *Term, out map[string]*Term) {
	if t.Op == "select" && len(t.Args) == 2 {
		out[t.String()] = t
	}
	for _, a := range t.Args {
		findSelects(a, out)
	}
}

// ---- sync.Pool (assumed contract) -----------------------------------------------------------

func (u *Unit) recordCaptured(st *State, pool *Term, cl *Closure) {
	// free variables of the closure that are struct values of Int fields
	ast.Inspect(cl.Lit.Body, func(n ast.Node) bool {
		id, ok := n.(*ast.Ident)
		if !ok {
			return true
		}
		obj := u.prog.Info.Uses[id]
		v, ok := cl.Env.vars[obj]
		if !ok || v.K != KStruct {
			return true
		}
		for fname, f := range v.Fields {
			if f.K == KInt {
				name := "pcap." + obj.Name() + "." + fname
				u.setComp(st, name, Store(u.comp(st, name, arrII), pool, f.Term))
			}
		}
		return true
	})
}

func (u *Unit) poolPut(st *State, p Value, v Value) []Value {
	if v.K == KIface && v.Inner != nil {
		v = *v.Inner
	}
	if p.K != KPool || v.K != KBuf {
		u.errorf("sync.Pool.Put: unsupported operands")
		return nil
	}
	items := u.comp(st, "items", SArr(SInt, SArr(SInt, SBool)))
	set := Select(items, p.Term)
	u.setComp(st, "items", Store(items, p.Term, Store(set, v.Term, True)))
	return nil
}

// poolGet: the assumed contract of sync.Pool.Get — either an item previously
// put (removed from the pool) or the result of running the New closure.
func (u *Unit) poolGet(st *State, p Value, call *ast.CallExpr) []Value {
	if p.K != KPool {
		u.errorf("sync.Pool.Get: unsupported receiver")
		return nil
	}
	// which closure: the package's only FuncLit assigned to a sync.Pool New field
	cl := u.prog.poolNewClosure()
	if cl == nil {
		u.errorf("sync.Pool.Get: no New closure found in the package")
		return nil
	}
	// the two outcomes of sync.Pool.Get are verified as two separate runs of
	// the unit (u.poolCase): a hit returns an item previously put and removes
	// it; a miss runs the New closure.
	u.sawPoolGet = true
	if u.poolCase == "miss" {
		elem, res := u.runPoolNew(st, p, cl)
		if elem == nil {
			return nil
		}
		return []Value{{K: KIface, Inner: &res}}
	}
	elem := u.poolElem()
	if elem == nil {
		u.errorf("sync.Pool.Get: cannot determine the element type of the pool")
		return nil
	}
	items := u.comp(st, "items", SArr(SInt, SArr(SInt, SBool)))
	it := u.ctx.Fresh("pooled", SInt)
	st.Assume(Select(Select(items, p.Term), it))
	u.setComp(st, "items", Store(items, p.Term, Store(Select(items, p.Term), it, False)))
	r := Value{K: KBuf, T: types.NewPointer(u.bufferTypeOf(elem)), Elem: elem, Term: it}
	return []Value{{K: KIface, Inner: &r}}
}

func (u *Unit) bufferTypeOf(elem types.Type) types.Type {
	obj := u.prog.Pkg.Types.Scope().Lookup("Buffer")
	nt, err := types.Instantiate(nil, obj.Type(), []types.Type{elem}, false)
	if err != nil {
		return obj.Type()
	}
	return nt
}

// poolElem: the element type of the pool allocator owning the pool in this unit.
func (u *Unit) poolElem() types.Type {
	for _, v := range u.entry {
		if v.K == KStruct {
			t := v.T
			if n, ok := t.(*types.Pointer); ok {
				t = n.Elem()
			}
			if nn, ok := t.(*types.Named); ok && nn.TypeArgs() != nil && nn.TypeArgs().Len() == 1 {
				return nn.TypeArgs().At(0)
			}
		}
	}
	if len(u.inst.Args) == 1 {
		return u.inst.Args[0]
	}
	return nil
}

// runPoolNew executes the New closure of pool p in state ms.
func (u *Unit) runPoolNew(ms *State, p Value, cl *poolClosure) (types.Type, Value) {
	// bind the captured variables from the pool's ghost record and the
	// enclosing function's type parameters to this unit's element type
	save := u.curTsub
	defer func() { u.curTsub = save }()
	sub := map[*types.TypeParam]types.Type{}
	for k, v := range save {
		sub[k] = v
	}
	elem := u.poolElem()
	if elem == nil {
		u.errorf("pool New: cannot determine element type")
		return nil, Value{}
	}
	for _, tp := range cl.Encl.TParam {
		sub[tp] = elem
	}
	u.curTsub = sub
	for _, obj := range cl.Captured {
		st, ok := obj.Type().Underlying().(*types.Struct)
		if !ok {
			u.errorf("pool New: captured variable %s of unsupported type", obj.Name())
			continue
		}
		v := Value{K: KStruct, T: obj.Type(), Fields: map[string]Value{}}
		for i := 0; i < st.NumFields(); i++ {
			f := st.Field(i)
			v.Fields[f.Name()] = intV(Select(u.comp(ms, "pcap."+obj.Name()+"."+f.Name(), arrII), p.Term))
		}
		ms.vars[obj] = v
	}
	// the closure body must be a single return statement
	if len(cl.Lit.Body.List) != 1 {
		u.errorf("pool New closure: only a single return statement is modelled")
		return nil, Value{}
	}
	ret, ok := cl.Lit.Body.List[0].(*ast.ReturnStmt)
	if !ok || len(ret.Results) != 1 {
		u.errorf("pool New closure: only a single return statement is modelled")
		return nil, Value{}
	}
	v := u.eval(ms, ret.Results[0])
	if v.K == KIface && v.Inner != nil {
		v = *v.Inner
	}
	if v.K != KBuf {
		u.errorf("pool New closure: result is not a buffer")
		return nil, Value{}
	}
	return elem, v
}

type poolClosure struct {
	Lit      *ast.FuncLit
	Encl     *FuncInfo
	Captured []*types.Var
}

func (p *Program) poolNewClosure() *poolClosure {
	var out *poolClosure
	for _, fi := range p.Funcs {
		if fi.Decl.Body == nil {
			continue
		}
		ast.Inspect(fi.Decl.Body, func(n ast.Node) bool {
			kv, ok := n.(*ast.KeyValueExpr)
			if !ok {
				return true
			}
			k, ok := kv.Key.(*ast.Ident)
			fl, ok2 := kv.Value.(*ast.FuncLit)
			if !ok || !ok2 || k.Name != "New" {
				return true
			}
			pc := &poolClosure{Lit: fl, Encl: fi}
			seen := map[types.Object]bool{}
			ast.Inspect(fl.Body, func(m ast.Node) bool {
				id, ok := m.(*ast.Ident)
				if !ok {
					return true
				}
				if v, ok := p.Info.Uses[id].(*types.Var); ok && !v.IsField() && !seen[v] {
					// declared outside the literal, inside the enclosing function
					if v.Pos() < fl.Pos() && v.Pos() >= fi.Decl.Pos() {
						seen[v] = true
						pc.Captured = append(pc.Captured, v)
					}
				}
				return true
			})
			out = pc
			return true
		})
	}
	return out
}

// evalHint instantiates a proved arithmetic lemma at the given terms.
func (u *Unit) evalHint(env *SpecEnv, h *Clause) *Term {
	e := h.Expr
	if e.Kind != "call" {
		u.errorf("hint: expected lemma(args) in %q", h.Text)
		return True
	}
	name := strings.ReplaceAll(e.Name, "_", "-")
	l, ok := hintLemmas[name]
	if !ok || len(e.Args) != l.arity {
		u.errorf("hint: unknown lemma or wrong arity: %s", h.Text)
		return True
	}
	var args []*Term
	for _, a := range e.Args {
		args = append(args, u.evalSpec(env, a).Term)
	}
	u.hintsUsed[name] = true
	return l.mk(u, args)
}

// compClass: the class part of a component name ("H:int8" -> "H"), so that
// obligation labels do not depend on the instantiation.
func compClass(name string) string {
	if i := strings.IndexByte(name, ':'); i >= 0 {
		return name[:i]
	}
	return name
}
