package main

import (
	"fmt"
	"math/big"
	"regexp"
	"strings"
)

// Standard-model translation of an extracted bit-precise kernel (BV/FP term)
// into integer/real arithmetic (DESIGN §3.3): every correctly rounded
// operation becomes rnd_p(exact) with rnd_p an uninterpreted function
// constrained by instantiated axioms (relative error 2^-p, monotone, exact on
// representable integers). Constants are folded exactly (big.Float at the
// format's precision). The translation refuses anything it does not know, in
// which case the caller falls back to the bit-precise lemma.

type stdTr struct {
	ctx   *Ctx
	varBV map[string]*Term // BV variable name -> Int term (code value under its signedness)
	varFP map[string]*Term // FP variable name -> Real term (finite value)
	sgn   map[string]bool  // BV variable name -> signed?
	rnd   map[int][]*Term  // precision -> arguments of rnd_p seen
	err   string
	side  []*Term // side conditions that must hold (no overflow to infinity etc.)
}

func newStdTr(ctx *Ctx) *stdTr {
	return &stdTr{ctx: ctx, varBV: map[string]*Term{}, varFP: map[string]*Term{}, sgn: map[string]bool{}, rnd: map[int][]*Term{}}
}

func (s *stdTr) fail(format string, a ...interface{}) *Term {
	if s.err == "" {
		s.err = fmt.Sprintf(format, a...)
	}
	return RealLit("0.0")
}

var reToFP = regexp.MustCompile(`^\(\(_ to_fp (\d+) (\d+)\) RNE (.*)\)$`)

func precOfSort(sort string) int {
	if sort == "(_ FloatingPoint 8 24)" {
		return 24
	}
	return 53
}

func ratOfLiteral(txt string) (*big.Rat, bool) {
	txt = strings.TrimSpace(txt)
	neg := false
	if strings.HasPrefix(txt, "(- ") && strings.HasSuffix(txt, ")") {
		neg = true
		txt = strings.TrimSpace(txt[3 : len(txt)-1])
	}
	var r *big.Rat
	if strings.HasPrefix(txt, "(/ ") && strings.HasSuffix(txt, ")") {
		f := strings.Fields(txt[3 : len(txt)-1])
		if len(f) != 2 {
			return nil, false
		}
		a, ok1 := new(big.Rat).SetString(strings.TrimSuffix(f[0], ".0"))
		b, ok2 := new(big.Rat).SetString(strings.TrimSuffix(f[1], ".0"))
		if !ok1 || !ok2 || b.Sign() == 0 {
			return nil, false
		}
		r = new(big.Rat).Quo(a, b)
	} else {
		var ok bool
		r, ok = new(big.Rat).SetString(strings.TrimSuffix(txt, ".0"))
		if !ok {
			return nil, false
		}
	}
	if neg {
		r.Neg(r)
	}
	return r, true
}

// roundRat rounds r to precision p (RNE), ignoring exponent range.
func roundRat(r *big.Rat, p int) *big.Rat {
	f := new(big.Float).SetPrec(uint(p)).SetMode(big.ToNearestEven)
	f.SetRat(r)
	out, _ := f.Rat(nil)
	return out
}

func realOfRat(r *big.Rat) *Term {
	neg := r.Sign() < 0
	a := new(big.Rat).Abs(r)
	var t *Term
	if a.IsInt() {
		t = RealLit(a.Num().String() + ".0")
	} else {
		t = mk("/", SReal, RealLit(a.Num().String()+".0"), RealLit(a.Denom().String()+".0"))
	}
	if neg {
		t = mk("-", SReal, t)
	}
	return t
}

// constant value of a real term built by realOfRat / arithmetic on such (for folding)
func ratOfReal(t *Term) (*big.Rat, bool) {
	switch {
	case len(t.Args) == 0:
		if t.Decl {
			return nil, false
		}
		return new(big.Rat).SetString(strings.TrimSuffix(t.Op, ".0"))
	case t.Op == "-" && len(t.Args) == 1:
		r, ok := ratOfReal(t.Args[0])
		if !ok {
			return nil, false
		}
		return new(big.Rat).Neg(r), true
	case t.Op == "/" && len(t.Args) == 2:
		a, ok1 := ratOfReal(t.Args[0])
		b, ok2 := ratOfReal(t.Args[1])
		if !ok1 || !ok2 || b.Sign() == 0 {
			return nil, false
		}
		return new(big.Rat).Quo(a, b), true
	}
	return nil, false
}

func isPow2Rat(r *big.Rat) bool {
	a := new(big.Rat).Abs(r)
	if a.Sign() == 0 {
		return false
	}
	n, d := a.Num(), a.Denom()
	one := big.NewInt(1)
	isP := func(x *big.Int) bool { return x.Sign() > 0 && new(big.Int).And(x, new(big.Int).Sub(x, one)).Sign() == 0 }
	return (n.Cmp(one) == 0 && isP(d)) || (d.Cmp(one) == 0 && isP(n))
}

func (s *stdTr) rndApp(p int, arg *Term) *Term {
	if r, ok := ratOfReal(arg); ok {
		return realOfRat(roundRat(r, p))
	}
	for _, a := range s.rnd[p] {
		if a.String() == arg.String() {
			return s.ctx.App(fmt.Sprintf("rnd%d", p), SReal, arg)
		}
	}
	s.rnd[p] = append(s.rnd[p], arg)
	return s.ctx.App(fmt.Sprintf("rnd%d", p), SReal, arg)
}

// fp translates an FP-sorted term to a Real term. exact reports whether the
// value is known to be exactly representable input data (the kernel variable).
func (s *stdTr) fp(t *Term) *Term {
	p := precOfSort(t.Sort)
	if len(t.Args) == 0 {
		if v, ok := s.varFP[t.Op]; ok {
			return v
		}
		if m := reToFP.FindStringSubmatch(t.Op); m != nil {
			r, ok := ratOfLiteral(m[3])
			if !ok {
				return s.fail("unsupported FP literal %s", t.Op)
			}
			return realOfRat(roundRat(r, p))
		}
		return s.fail("unsupported FP leaf %s", t.Op)
	}
	switch {
	case strings.HasPrefix(t.Op, "(_ to_fp_unsigned"):
		v := s.bvInt(t.Args[1], false)
		return s.intToFP(v, bvWidth(t.Args[1].Sort), p)
	case strings.HasPrefix(t.Op, "(_ to_fp"):
		a := t.Args[1]
		if isBV(a) {
			v := s.bvInt(a, true)
			return s.intToFP(v, bvWidth(a.Sort), p)
		}
		// float -> float
		src := s.fp(a)
		if precOfSort(a.Sort) <= p {
			return src
		}
		return s.rndApp(p, src)
	case t.Op == "fp.neg":
		return mk("-", SReal, s.fp(t.Args[0]))
	case t.Op == "fp.abs":
		v := s.fp(t.Args[0])
		return Ite(Ge(v, RealLit("0.0")), v, mk("-", SReal, v))
	case t.Op == "fp.add" || t.Op == "fp.sub" || t.Op == "fp.mul" || t.Op == "fp.div":
		if t.Args[0].Op != "RNE" {
			return s.fail("unsupported rounding mode %s", t.Args[0].Op)
		}
		a, b := s.fp(t.Args[1]), s.fp(t.Args[2])
		op := map[string]string{"fp.add": "+", "fp.sub": "-", "fp.mul": "*", "fp.div": "/"}[t.Op]
		exact := mk(op, SReal, a, b)
		if ra, ok := ratOfReal(a); ok {
			if rb, ok2 := ratOfReal(b); ok2 && !(op == "/" && rb.Sign() == 0) {
				var r *big.Rat
				switch op {
				case "+":
					r = new(big.Rat).Add(ra, rb)
				case "-":
					r = new(big.Rat).Sub(ra, rb)
				case "*":
					r = new(big.Rat).Mul(ra, rb)
				case "/":
					r = new(big.Rat).Quo(ra, rb)
				}
				return realOfRat(roundRat(r, p))
			}
		}
		// scaling a representable value by a power of two is exact (no overflow/underflow here)
		if t.Op == "fp.mul" || t.Op == "fp.div" {
			if rb, ok := ratOfReal(b); ok && isPow2Rat(rb) && s.isInputVar(t.Args[1]) {
				return exact
			}
			if ra, ok := ratOfReal(a); ok && t.Op == "fp.mul" && isPow2Rat(ra) && s.isInputVar(t.Args[2]) {
				return exact
			}
		}
		if op == "/" {
			if _, ok := ratOfReal(b); !ok {
				return s.fail("division by a non-constant")
			}
		}
		return s.rndApp(p, exact)
	case t.Op == "ite":
		return Ite(s.boolT(t.Args[0]), s.fp(t.Args[1]), s.fp(t.Args[2]))
	}
	return s.fail("unsupported FP operator %s", t.Op)
}

// isInputVar: the term is the kernel's float input (possibly widened exactly).
func (s *stdTr) isInputVar(t *Term) bool {
	if len(t.Args) == 0 {
		_, ok := s.varFP[t.Op]
		return ok
	}
	if strings.HasPrefix(t.Op, "(_ to_fp 11 53)") && len(t.Args) == 2 && !isBV(t.Args[1]) {
		return s.isInputVar(t.Args[1])
	}
	return false
}

func (s *stdTr) intToFP(v *Term, width, p int) *Term {
	r := mk("to_real", SReal, v)
	if n, ok := bigOfIntTerm(v); ok {
		return realOfRat(roundRat(new(big.Rat).SetInt(n), p))
	}
	if width <= p {
		return r // every value of the integer type is representable
	}
	return s.rndApp(p, r)
}

var reExtract = regexp.MustCompile(`^\(_ extract (\d+) 0\)$`)
var reExtend = regexp.MustCompile(`^\(_ (sign|zero)_extend (\d+)\)$`)
var reToSbv = regexp.MustCompile(`^\(_ fp.to_sbv (\d+)\)$`)

// wrapInt: value v reduced to width w under the given signedness.
func wrapInt(v *Term, w int, signed bool) *Term {
	if n, ok := bigOfIntTerm(v); ok {
		m := pow2(w)
		r := new(big.Int).Mod(n, m)
		if signed && r.Cmp(pow2(w-1)) >= 0 {
			r.Sub(r, m)
		}
		return IntBig(r)
	}
	m := IntBig(pow2(w))
	r := mk("mod", SInt, v, m)
	if signed {
		return Ite(Ge(r, IntBig(pow2(w-1))), Sub(r, m), r)
	}
	return r
}

// bvInt translates a BV term into an Int term: its value under `signed`.
func (s *stdTr) bvInt(t *Term, signed bool) *Term {
	w := bvWidth(t.Sort)
	if len(t.Args) == 0 {
		if v, ok := s.varBV[t.Op]; ok {
			// the variable's value under its own signedness, re-read under `signed`
			if s.sgn[t.Op] == signed {
				return v
			}
			return wrapInt(v, w, signed)
		}
		if n, lw, ok := bvLitVal(t); ok {
			if signed {
				return IntBig(toSigned(n, lw))
			}
			return IntBig(n)
		}
		s.fail("unsupported BV leaf %s", t.Op)
		return IntLit(0)
	}
	if m := reExtract.FindStringSubmatch(t.Op); m != nil {
		inner := s.bvInt(t.Args[0], true)
		return wrapInt(inner, w, signed)
	}
	if m := reExtend.FindStringSubmatch(t.Op); m != nil {
		inner := s.bvInt(t.Args[0], m[1] == "sign")
		return wrapInt(inner, w, signed)
	}
	if m := reToSbv.FindStringSubmatch(t.Op); m != nil {
		if t.Args[0].Op != "RTZ" {
			s.fail("to_sbv with rounding %s", t.Args[0].Op)
			return IntLit(0)
		}
		f := s.fp(t.Args[1])
		tr := Ite(Ge(f, RealLit("0.0")), mk("to_int", SInt, f), Neg(mk("to_int", SInt, mk("-", SReal, f))))
		return wrapInt(tr, w, signed)
	}
	switch t.Op {
	case "bvadd", "bvsub", "bvmul":
		a, b := s.bvInt(t.Args[0], signed), s.bvInt(t.Args[1], signed)
		var r *Term
		switch t.Op {
		case "bvadd":
			r = Add(a, b)
		case "bvsub":
			r = Sub(a, b)
		default:
			if _, ok := isIntLit(a); !ok {
				if _, ok2 := isIntLit(b); !ok2 {
					s.fail("non-linear bvmul")
					return IntLit(0)
				}
			}
			r = Mul(a, b)
		}
		return wrapInt(r, w, signed)
	case "bvneg":
		return wrapInt(Neg(s.bvInt(t.Args[0], signed)), w, signed)
	case "bvor":
		// x | 2^(w-1) where x < 2^(w-1) is known only for the uint64 conversion idiom: not modelled
		s.fail("bvor not modelled")
		return IntLit(0)
	case "ite":
		return Ite(s.boolT(t.Args[0]), s.bvInt(t.Args[1], signed), s.bvInt(t.Args[2], signed))
	}
	s.fail("unsupported BV operator %s", t.Op)
	return IntLit(0)
}

func (s *stdTr) boolT(t *Term) *Term {
	switch t.Op {
	case "true", "false":
		return t
	case "and":
		var cs []*Term
		for _, a := range t.Args {
			cs = append(cs, s.boolT(a))
		}
		return And(cs...)
	case "or":
		var cs []*Term
		for _, a := range t.Args {
			cs = append(cs, s.boolT(a))
		}
		return Or(cs...)
	case "not":
		return Not(s.boolT(t.Args[0]))
	case "ite":
		if len(t.Args) == 3 && t.Args[1].Sort == SBool {
			return Ite(s.boolT(t.Args[0]), s.boolT(t.Args[1]), s.boolT(t.Args[2]))
		}
	case "=>":
		return Imp(s.boolT(t.Args[0]), s.boolT(t.Args[1]))
	case "fp.gt", "fp.geq", "fp.lt", "fp.leq", "fp.eq":
		a, b := s.fp(t.Args[0]), s.fp(t.Args[1])
		switch t.Op {
		case "fp.gt":
			return Gt(a, b)
		case "fp.geq":
			return Ge(a, b)
		case "fp.lt":
			return Lt(a, b)
		case "fp.leq":
			return Le(a, b)
		}
		return Eq(a, b)
	case "bvsgt", "bvsge", "bvslt", "bvsle", "bvugt", "bvuge", "bvult", "bvule":
		signed := t.Op[2] == 's'
		a, b := s.bvInt(t.Args[0], signed), s.bvInt(t.Args[1], signed)
		switch t.Op[3:] {
		case "gt":
			return Gt(a, b)
		case "ge":
			return Ge(a, b)
		case "lt":
			return Lt(a, b)
		}
		return Le(a, b)
	case "=":
		if isBV(t.Args[0]) {
			return Eq(s.bvInt(t.Args[0], false), s.bvInt(t.Args[1], false))
		}
		if isFP(t.Args[0]) {
			return Eq(s.fp(t.Args[0]), s.fp(t.Args[1]))
		}
	}
	s.fail("unsupported boolean operator %s", t.Op)
	return True
}

// axioms instantiates the standard-model axioms of rnd_p for the arguments
// seen plus the hint points (exactly representable values).
func (s *stdTr) axioms(hints map[int][]*Term) []*Term {
	var ax []*Term
	abs := func(t *Term) *Term { return Ite(Ge(t, RealLit("0.0")), t, mk("-", SReal, t)) }
	for p, args := range s.rnd {
		pts := append([]*Term{}, args...)
		pts = append(pts, hints[p]...)
		eps := mk("/", SReal, RealLit("1.0"), RealLit(pow2(p).String()+".0"))
		lim := RealLit(pow2(p).String() + ".0")
		r := func(t *Term) *Term {
			if q, ok := ratOfReal(t); ok {
				return realOfRat(roundRat(q, p))
			}
			return s.ctx.App(fmt.Sprintf("rnd%d", p), SReal, t)
		}
		for _, a := range pts {
			ax = append(ax, Le(abs(mk("-", SReal, r(a), a)), mk("*", SReal, eps, abs(a))))
			isInt := Eq(mk("to_real", SReal, mk("to_int", SInt, a)), a)
			ax = append(ax, Imp(And(isInt, Le(abs(a), lim)), Eq(r(a), a)))
		}
		for i, a := range pts {
			for j, b := range pts {
				if i != j {
					ax = append(ax, Imp(Le(a, b), Le(r(a), r(b))))
				}
			}
		}
	}
	return ax
}

func bigOfIntTerm(t *Term) (*big.Int, bool) {
	if t.Sort != SInt {
		return nil, false
	}
	if len(t.Args) == 0 && !t.Decl {
		return new(big.Int).SetString(t.Op, 10)
	}
	if t.Op == "-" && len(t.Args) == 1 {
		if n, ok := bigOfIntTerm(t.Args[0]); ok {
			return new(big.Int).Neg(n), true
		}
	}
	return nil, false
}
