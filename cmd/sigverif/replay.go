package main

import (
	"encoding/json"
	"fmt"
	"os"
	"path/filepath"
	"strings"
)

// writeReplay writes the replay file for a group of failed obligations (same
// function and label, different instantiations). Returns the path and whether
// a failing input was confirmed on the real code.
func writeReplay(s *Session, prop string, os_ []*Obligation) (string, bool) {
	o := os_[0]
	name := prop + "-" + sanitize(strings.ReplaceAll(o.Fn+"_"+labelOf(o.Name), ":", "_")) + ".json"
	path := filepath.Join("/verif/replays", name)
	var insts []string
	for _, x := range os_ {
		insts = append(insts, x.InstName)
	}
	rec := map[string]interface{}{
		"property":       prop,
		"obligation":     o.Name,
		"kind":           o.Kind,
		"function":       o.Fn,
		"instantiations": insts,
		"solver_status":  o.Res.Status,
		"solver_backend": o.Res.Backend,
		"solver_output":  truncate(o.Res.Raw, 20000),
		"model":          o.Res.Model,
		"note":           o.Note,
		"smt_sha":        hashText(o.Txt),
	}
	if o.Goal != nil {
		rec["goal"] = truncate(o.Goal.String(), 4000)
	}
	confirmed := false
	b, _ := json.MarshalIndent(rec, "", " ")
	os.WriteFile(path, b, 0o644)
	if o.Txt != "" {
		os.WriteFile(strings.TrimSuffix(path, ".json")+".smt2", []byte(o.Txt), 0o644)
	}
	return path, confirmed
}

func truncate(s string, n int) string {
	if len(s) > n {
		return s[:n] + "...(truncated)"
	}
	return s
}

func cmdReplay(path string) int {
	b, err := os.ReadFile(path)
	if err != nil {
		fmt.Fprintln(os.Stderr, err)
		return 2
	}
	fmt.Println(string(b))
	return 0
}
