package main

import (
	"sync"
	"encoding/json"
	"fmt"
	"go/types"
	"math/big"
	"os"
	"os/exec"
	"path/filepath"
	"regexp"
	"sort"
	"strings"
	"time"
)

// Replay of counterexamples on the real code (DESIGN §3.8).
//
// For a failed obligation of a function under contract the unit is generated
// once more with the arithmetic definitions (theory "defined", so that the
// model is arithmetically consistent), the query is bounded to small storage,
// and the model's shapes and scalars are turned into an in-package Go test
// injected with `go test -overlay` (nothing is written into the repository).
// The test builds the pre-state directly (one backing array per element type,
// buffers as windows of it), calls the real function under recover and
// reports what happened; the verdict compares that with what the contract
// clause demands.

type replayInput struct {
	Name string                 `json:"name"`
	Kind string                 `json:"kind"`
	Type string                 `json:"type"`
	Val  map[string]interface{} `json:"val"`
}

// writeReplay writes the replay file for a group of failed obligations (same
// function and label, different instantiations). Returns the path and whether
// a failing input was confirmed on the real code.
func writeReplay(s *Session, prop string, os_ []*Obligation, doReplay bool) (string, bool) {
	o := os_[0]
	name := prop + "-" + sanitize(strings.ReplaceAll(o.Fn+"_"+labelOf(o.Name), ":", "_")) + ".json"
	name = strings.NewReplacer("#", "_", "@", "_", "!", "_").Replace(name)
	path := filepath.Join("/verif/replays", name)
	var insts []string
	for _, x := range os_ {
		insts = append(insts, x.InstName)
	}
	rec := map[string]interface{}{
		"property":       prop,
		"obligation":     o.Name,
		"kind":           o.Kind,
		"function":       o.Fn,
		"instantiations": insts,
		"solver_status":  o.Res.Status,
		"solver_backend": o.Res.Backend,
		"solver_output":  truncate(o.Res.Raw, 8000),
		"model":          o.Res.Model,
		"note":           o.Note,
		"smt_sha":        hashText(o.Txt),
		"repo":           repoDir,
	}
	if o.Goal != nil {
		rec["goal"] = truncate(o.Goal.String(), 4000)
	}
	confirmed := false
	func() {
		defer func() {
			if r := recover(); r != nil {
				rec["replay_error"] = fmt.Sprint(r)
			}
		}()
		// try the failing instantiations in order until one replays
		if !doReplay {
			rec["replay_skipped"] = "more than 12 failing clauses in this run: only the first 12 are replayed"
		}
		for i, x := range os_ {
			if i >= 2 || !doReplay {
				break
			}
			ok, det := s.replayObligation(prop, x)
			if det != nil {
				rec["replay"] = det
			}
			if ok {
				confirmed = true
				rec["obligation"] = x.Name
				break
			}
		}
	}()
	rec["confirmed_on_real_code"] = confirmed
	b, _ := json.MarshalIndent(rec, "", " ")
	os.WriteFile(path, b, 0o644)
	if o.Txt != "" {
		os.WriteFile(strings.TrimSuffix(path, ".json")+".smt2", []byte(o.Txt), 0o644)
	}
	return path, confirmed
}

func truncate(s string, n int) string {
	if len(s) > n {
		return s[:n] + "...(truncated)"
	}
	return s
}

func cmdReplay(path string) int {
	b, err := os.ReadFile(path)
	if err != nil {
		fmt.Fprintln(os.Stderr, err)
		return 2
	}
	var rec struct {
		Property   string            `json:"property"`
		Obligation string            `json:"obligation"`
		Kind       string            `json:"kind"`
		Function   string            `json:"function"`
		Insts      []string          `json:"instantiations"`
		Status     string            `json:"solver_status"`
		Backend    string            `json:"solver_backend"`
		Model      map[string]string `json:"model"`
		Confirmed  bool              `json:"confirmed_on_real_code"`
		Note       string            `json:"note"`
	}
	if err := json.Unmarshal(b, &rec); err != nil {
		fmt.Fprintln(os.Stderr, err)
		return 2
	}
	fmt.Printf("property   : %s\nobligation : %s\nsolver     : %s (%s)\nrecorded   : confirmed_on_real_code=%v\n", rec.Property, rec.Obligation, rec.Status, rec.Backend, rec.Confirmed)
	initWork()
	defer cleanupWork()
	s, err := newSession()
	if err != nil {
		fmt.Fprintln(os.Stderr, "error:", err)
		return 2
	}
	inst := ""
	if m := regexp.MustCompile(`\[([^\]]*)\]`).FindStringSubmatch(rec.Obligation); m != nil {
		inst = m[1]
	}
	o := &Obligation{Name: rec.Obligation, Kind: rec.Kind, Fn: rec.Function, InstName: inst,
		Res: &SolveResult{Status: rec.Status, Backend: rec.Backend, Model: rec.Model}}
	if strings.Contains(rec.Obligation, "/bounded:") {
		fmt.Println("bounded stand-in: re-run the property check to repeat the exhaustive execution;", rec.Note)
		return 0
	}
	ok, det := s.replayObligation(rec.Property, o)
	if det != nil {
		if out, _ := det["test_output"].(string); out != "" {
			fmt.Println(out)
		}
		if v, okv := det["violated_clauses_on_real_code"]; okv {
			fmt.Println("violated contract clauses on the real code:", v)
		}
		if n, okn := det["note"]; okn {
			fmt.Println("note:", n)
		}
	}
	if ok {
		fmt.Printf("REPLAY: the failing input of %s is confirmed on the real code\n", rec.Obligation)
		return 1
	}
	fmt.Println("REPLAY: no failing input could be confirmed on the real code (the obligation is undischarged; see solver_output in the file)")
	return 0
}

// runOverlayTest injects an in-package test file and runs it.
func runOverlayTest(src, testName string) (string, error) {
	dir, err := os.MkdirTemp("/var/tmp", "sigverif-replay-")
	if err != nil {
		return "", err
	}
	defer os.RemoveAll(dir)
	tf := filepath.Join(dir, "zz_verif_replay_test.go")
	os.WriteFile(tf, []byte(src), 0o644)
	ov := map[string]map[string]string{"Replace": {filepath.Join(repoDir, "zz_verif_replay_test.go"): tf}}
	ob, _ := json.Marshal(ov)
	ovf := filepath.Join(dir, "overlay.json")
	os.WriteFile(ovf, ob, 0o644)
	cmd := exec.Command("go", "test", "-overlay", ovf, "-vet=off", "-count=1", "-timeout", "60s", "-run", "^"+testName+"$", "-v", ".")
	cmd.Dir = repoDir
	cmd.Env = append(os.Environ(), "GOFLAGS=-mod=mod", "GOPROXY=off", "GOSUMDB=off", "GOTOOLCHAIN=local")
	done := make(chan struct{})
	var out []byte
	go func() {
		out, err = cmd.CombinedOutput()
		close(done)
	}()
	select {
	case <-done:
	case <-time.After(120 * time.Second):
		if cmd.Process != nil {
			cmd.Process.Kill()
		}
		<-done
	}
	return string(out), err
}

// ---- model values -------------------------------------------------------------------------

var reGetValue = regexp.MustCompile(`(?s)^\(\((.*)\)\)$`)

// evalTerms asks the solver for the values of terms in a model of the query.
func evalTerms(script string, terms []*Term, budgetS int) (map[string]string, string) {
	var sb strings.Builder
	body := strings.Replace(script, "(get-model)\n", "", 1)
	sb.WriteString(body)
	for _, t := range terms {
		sb.WriteString("(get-value (" + t.String() + "))\n")
	}
	file := filepath.Join(workDir, "replay-"+hashText(sb.String())+".smt2")
	os.WriteFile(file, []byte(sb.String()), 0o644)
	cmd := exec.Command("z3-new", fmt.Sprintf("-T:%d", budgetS), file)
	out, _ := cmd.CombinedOutput()
	lines := strings.Split(strings.TrimSpace(string(out)), "\n")
	if len(lines) == 0 || strings.TrimSpace(lines[0]) != "sat" {
		return nil, strings.TrimSpace(lines[0])
	}
	// parse successive ((term value)) answers
	rest := strings.Join(lines[1:], "\n")
	vals := map[string]string{}
	pos := 0
	for _, t := range terms {
		for pos < len(rest) && rest[pos] != '(' {
			pos++
		}
		end := skipSexp(rest, pos)
		if end < 0 {
			break
		}
		ans := rest[pos:end]
		pos = end
		// ans = ((term value)): strip the two leading parens, skip the term sexp
		inner := strings.TrimSpace(ans[1 : len(ans)-1])
		inner = strings.TrimSpace(inner[1 : len(inner)-1])
		p := skipSexp(inner, 0)
		if p < 0 {
			continue
		}
		vals[t.String()] = strings.Join(strings.Fields(inner[p:]), " ")
	}
	return vals, "sat"
}

func parseSMTInt(v string) (*big.Int, bool) {
	v = strings.TrimSpace(v)
	neg := false
	if strings.HasPrefix(v, "(-") {
		neg = true
		v = strings.TrimSpace(strings.TrimSuffix(strings.TrimPrefix(v, "(-"), ")"))
	}
	n, ok := new(big.Int).SetString(v, 10)
	if !ok {
		return nil, false
	}
	if neg {
		n.Neg(n)
	}
	return n, true
}

func parseSMTBV(v string) (*big.Int, int, bool) {
	v = strings.TrimSpace(v)
	switch {
	case strings.HasPrefix(v, "#x"):
		n, ok := new(big.Int).SetString(v[2:], 16)
		return n, 4 * len(v[2:]), ok
	case strings.HasPrefix(v, "#b"):
		n, ok := new(big.Int).SetString(v[2:], 2)
		return n, len(v[2:]), ok
	case strings.HasPrefix(v, "(_ bv"):
		var s string
		var w int
		if _, err := fmt.Sscanf(v, "(_ bv%s %d)", &s, &w); err == nil {
			n, ok := new(big.Int).SetString(s, 10)
			return n, w, ok
		}
	}
	return nil, 0, false
}

// fpBits turns an SMT FP value into the IEEE bit pattern.
func fpBits(v string) (uint64, int, bool) {
	v = strings.TrimSpace(v)
	if m := regexp.MustCompile(`^\(\(_ to_fp \d+ \d+\) #x([0-9a-fA-F]+)\)$`).FindStringSubmatch(v); m != nil {
		n, ok := new(big.Int).SetString(m[1], 16)
		if ok {
			return n.Uint64(), 4 * len(m[1]), true
		}
	}
	if strings.HasPrefix(v, "(fp ") {
		f := strings.Fields(strings.TrimSuffix(strings.TrimPrefix(v, "(fp "), ")"))
		if len(f) != 3 {
			return 0, 0, false
		}
		var bits string
		for _, p := range f {
			n, w, ok := parseSMTBV(p)
			if !ok {
				return 0, 0, false
			}
			bits += fmt.Sprintf("%0*b", w, n)
		}
		n, _ := new(big.Int).SetString(bits, 2)
		return n.Uint64(), len(bits), true
	}
	m := regexp.MustCompile(`^\(_ (\+zero|-zero|\+oo|-oo|NaN) (\d+) (\d+)\)$`).FindStringSubmatch(v)
	if m != nil {
		var eb, sb int
		fmt.Sscan(m[2], &eb)
		fmt.Sscan(m[3], &sb)
		w := eb + sb
		switch m[1] {
		case "+zero":
			return 0, w, true
		case "-zero":
			return 1 << uint(w-1), w, true
		case "+oo":
			return ((1 << uint(eb)) - 1) << uint(sb-1), w, true
		case "-oo":
			return (1 << uint(w-1)) | (((1 << uint(eb)) - 1) << uint(sb-1)), w, true
		case "NaN":
			return (((1 << uint(eb)) - 1) << uint(sb-1)) | 1, w, true
		}
	}
	return 0, 0, false
}

// ---- replay of one obligation ----------------------------------------------------------------

func goTypeName(t types.Type) string { return typeName(t) }

// replayObligation returns (confirmed, details).
func (s *Session) replayObligation(prop string, o *Obligation) (bool, map[string]interface{}) {
	if o.Bounded {
		return o.Res != nil && o.Res.Status == "sat", map[string]interface{}{"bounded": true, "examples": o.Res.Model,
			"note": "failing inputs found by exhaustive native execution of the real functions"}
	}
	if o.Kind == "lemma" {
		return s.replayLemma(prop, o)
	}
	// up to three different models of the failed obligation (each new search excludes the shapes
	// already tried) until one is confirmed on the real code
	var prev []map[string]string
	var last map[string]interface{}
	// an obligation the solvers could not decide (timeout / unknown) has no model to start from and
	// the staged model search mostly times out as well: run the cheap precondition-model search first
	preFirst := o.Res != nil && o.Res.Status != "sat" && (!isEffectKind(o.Kind) || hasProp(o.Props, "C18"))
	if preFirst && !replayBudgetExhausted() {
		if ok, det := s.searchFailingInput(prop, o); ok {
			return true, det
		} else if det != nil {
			last = map[string]interface{}{"precondition_model_search": det["summary"]}
		}
	}
	for attempt := 0; attempt < 3; attempt++ {
		if replayBudgetExhausted() {
			if last == nil {
				last = map[string]interface{}{}
			}
			last["note"] = "replay budget of this run exhausted (100 s): no further inputs were tried"
			return false, last
		}
		ok, det := s.replayOnce(prop, o, prev)
		if det != nil {
			det["models_tried"] = attempt + 1
			last = det
		}
		if ok {
			return true, det
		}
		if det == nil {
			break
		}
		mv, _ := det["model_values"].(map[string]string)
		if mv == nil || strings.HasPrefix(o.Fn, "Frequency.") {
			break
		}
		prev = append(prev, mv)
	}
	// no model of the obligation could be confirmed: look for a failing input among models of the
	// preconditions alone (cached per property, function and instantiation)
	if !preFirst && (!isEffectKind(o.Kind) || hasProp(o.Props, "C18")) && !replayBudgetExhausted() {
		if ok, det := s.searchFailingInput(prop, o); ok {
			return true, det
		} else if det != nil && last != nil {
			last["precondition_model_search"] = det["summary"]
		}
	}
	return false, last
}

// all replays of one check run share a wall-clock budget, so that a check on a badly broken tree
// still terminates in minutes; what is not replayed is reported with no-failing-input-found
var replayStart time.Time
var replayStartOnce sync.Once

func replayBudgetExhausted() bool {
	replayStartOnce.Do(func() { replayStart = time.Now() })
	return time.Since(replayStart) > 100*time.Second
}

func undecidableRequires(ct *Contract) bool {
	for _, rq := range ct.Requires {
		if strings.Contains(rq.Text, "forallBuf") || strings.Contains(rq.Text, "inPool") {
			return true
		}
	}
	return false
}

func isEffectKind(k string) bool { return k == "writes" || k == "writes-nothing" || k == "reads" || k == "structure" }

type preSearchResult struct {
	ok  bool
	det map[string]interface{}
}

var (
	preSearchMu    sync.Mutex
	preSearchCache = map[string]*preSearchResult{}
	preSearchBusy  = map[string]chan struct{}{}
)

// searchFailingInput runs the real function on up to six inputs that satisfy the contract's
// preconditions (solver models steered to different corners) and evaluates the property's contract
// clauses on each run (runtime assertion checking). A violated clause is a failing input.
func (s *Session) searchFailingInput(prop string, o *Obligation) (bool, map[string]interface{}) {
	key := prop + "|" + o.Fn + "|" + o.InstName
	preSearchMu.Lock()
	if r, ok := preSearchCache[key]; ok {
		preSearchMu.Unlock()
		return r.ok, r.det
	}
	if ch, busy := preSearchBusy[key]; busy {
		preSearchMu.Unlock()
		<-ch
		preSearchMu.Lock()
		r := preSearchCache[key]
		preSearchMu.Unlock()
		if r == nil {
			return false, nil
		}
		return r.ok, r.det
	}
	ch := make(chan struct{})
	preSearchBusy[key] = ch
	preSearchMu.Unlock()
	res := &preSearchResult{}
	func() {
		defer func() { recover() }()
		var prev []map[string]string
		tried := 0
		for attempt := 0; attempt < 6 && !replayBudgetExhausted(); attempt++ {
			ok, det := s.replayOnceMode(prop, o, prev, true)
			if det == nil {
				break
			}
			tried++
			if ok {
				det["found_by"] = "precondition-model search (input " + fmt.Sprint(tried) + ")"
				res.ok, res.det = true, det
				return
			}
			mv, _ := det["model_values"].(map[string]string)
			if mv == nil {
				break
			}
			prev = append(prev, mv)
		}
		res.det = map[string]interface{}{"summary": fmt.Sprintf("%d precondition models run on the real code, no contract clause of %s violated", tried, prop)}
	}()
	preSearchMu.Lock()
	preSearchCache[key] = res
	delete(preSearchBusy, key)
	preSearchMu.Unlock()
	close(ch)
	return res.ok, res.det
}

func (s *Session) replayOnce(prop string, o *Obligation, prev []map[string]string) (bool, map[string]interface{}) {
	return s.replayOnceMode(prop, o, prev, false)
}

// replayOnceMode: with pre = true the candidate input is any model of the function's
// (quantifier-free) preconditions instead of a model of the failed obligation; the run on the real
// code is then judged by runtime assertion checking of the property's contract clauses only.
func (s *Session) replayOnceMode(prop string, o *Obligation, prev []map[string]string, pre bool) (bool, map[string]interface{}) {
	fi := s.prog.Funcs[o.Fn]
	ct := s.cf.Funcs[o.Fn]
	if fi == nil || ct == nil {
		return false, nil
	}
	// regenerate the unit with arithmetic definitions
	var inst *Inst
	for _, in := range s.instsFor(fi, ct) {
		if in.Name == o.InstName {
			inst = in
		}
	}
	if inst == nil {
		return false, nil
	}
	u := newUnit(s.prog, s.cf, fi, ct, inst, ct.Mode)
	u.theory = "defined"
	if strings.Contains(o.Name, "/pool-miss:") {
		u.poolCase = "miss"
	} else {
		u.poolCase = "hit"
	}
	for _, v := range ct.Variants {
		if strings.HasSuffix(o.Name, "@"+v.Label) {
			u.variant = v
		}
	}
	func() {
		defer func() { recover() }()
		u.verifyFunc()
	}()
	u.finish()
	if u.opaqueUsed {
		return false, map[string]interface{}{"note": "the function keeps state in an object of another package (outside the model): a model of this obligation cannot be turned into a run"}
	}
	want := o.Name
	if i := strings.Index(want, "/pool-"); i >= 0 {
		j := strings.Index(want[i+1:], ":")
		want = want[:i] + "/" + want[i+1+j+1:]
	}
	want = strings.TrimSuffix(want, "@C20")
	if pre {
		want = u.name() + "/cover:requires"
	}
	var od *Obligation
	for _, x := range u.obls {
		if x.Name == want {
			od = x
		}
	}
	if od == nil || (od.Cover && !pre) {
		return false, map[string]interface{}{"note": "obligation not found in the defined-theory rerun"}
	}
	baseAssume := append(append([]*Term{}, od.Axioms...), od.Assume...)
	goal := od.Goal
	if pre {
		goal = False
		o = &Obligation{Name: o.Name, Kind: "search", Props: o.Props, Fn: o.Fn, InstName: o.InstName}
	}
	// bound the storage so that the state can be built; small bounds first — with every shape
	// integer confined to a few values the nonlinear frame arithmetic is decided by branching
	qfOnly := false
	var preSteer []*Term // pre mode: soft preferences for this attempt
	var block []*Term    // shapes already tried
	boundsFor := func(cells, objs int64) []*Term {
		assume := append([]*Term{}, block...)
		for _, a := range baseAssume {
			if !qfOnly || !hasQuantifier(a) {
				assume = append(assume, a)
			}
		}
		for _, k := range sortedKeysT(u.initMem) {
			if strings.HasPrefix(k, "brk:") || strings.HasPrefix(k, "sbrk:") {
				assume = append(assume, Le(u.initMem[k], IntLit(cells)))
			}
			if strings.HasPrefix(k, "obrk:") {
				assume = append(assume, Le(u.initMem[k], IntLit(objs)))
			}
		}
		return assume
	}
	// terms to evaluate
	type want_ struct {
		key string
		t   *Term
	}
	var wants []want_
	add := func(key string, t *Term) { wants = append(wants, want_{key, t}) }
	var inputs []map[string]interface{}
	var paramOrder []string
	paramOrder = append(paramOrder, ct.Params...)
	for _, pn := range paramOrder {
		v, ok := u.entry[pn]
		if !ok {
			continue
		}
		s.collectWants(u, pn, v, add)
	}
	var terms []*Term
	for _, w := range wants {
		terms = append(terms, w.t)
	}
	// keep channel counts and outer slices small enough for the harness
	for _, w := range wants {
		if strings.HasSuffix(w.key, ".ch") && w.t.Sort == SInt {
			block = append(block, Le(w.t, IntLit(4)))
		}
	}
	for _, pn := range paramOrder {
		if v, ok := u.entry[pn]; ok && v.K == KSlice && v.Len != nil {
			if _, isOuter := v.Elem.(*types.Slice); isOuter {
				block = append(block, Le(v.Len, IntLit(4)))
				// later attempts ask for uneven channels (the usual corner of the striped functions);
				// this only steers the choice of candidate inputs
				if len(prev) >= 1 {
					l0 := u.innerSlice(u.old, v, IntLit(0)).Len
					l1 := u.innerSlice(u.old, v, IntLit(1)).Len
					block = append(block, Ge(v.Len, IntLit(2)))
					if len(prev) == 1 {
						block = append(block, Lt(l0, l1))
					} else {
						block = append(block, Gt(l0, l1))
					}
				}
			}
		}
	}
	if pre {
		// steer successive candidates towards different corners (soft: dropped if unsatisfiable)
		k := len(prev)
		var steer []*Term
		for _, w := range wants {
			base := strings.TrimSuffix(w.key, ".len")
			if base == w.key || w.t.Sort != SInt {
				continue
			}
			var capT, chT, ptrT *Term
			for _, w2 := range wants {
				switch w2.key {
				case base + ".cap":
					capT = w2.t
				case base + ".ch":
					chT = w2.t
				case base + ".ptr":
					ptrT = w2.t
				}
			}
			if capT == nil || chT == nil {
				continue
			}
			switch k % 6 {
			case 0:
				steer = append(steer, Ge(w.t, IntLit(1)), Ge(chT, IntLit(2)))
			case 1:
				steer = append(steer, Lt(w.t, capT), Ge(w.t, IntLit(1)))
			case 2:
				steer = append(steer, Eq(w.t, capT), Ge(w.t, IntLit(2)))
			case 3:
				steer = append(steer, Ge(chT, IntLit(2)), Ne(mk("mod", SInt, w.t, chT), IntLit(0)))
			case 4:
				if ptrT != nil {
					steer = append(steer, Gt(ptrT, IntLit(0)), Ge(w.t, IntLit(1)))
				}
			case 5:
				steer = append(steer, Eq(w.t, IntLit(0)))
			}
		}
		// two buffers: the second does not fit into the spare capacity of the first, or the reverse
		// (growing append with partial spare capacity, longer source than destination, …)
		var lens, caps []*Term
		for _, w := range wants {
			if strings.HasSuffix(w.key, ".len") && w.t.Sort == SInt {
				base := strings.TrimSuffix(w.key, ".len")
				var capT *Term
				isBuf := false
				for _, w2 := range wants {
					switch w2.key {
					case base + ".cap":
						capT = w2.t
					case base + ".ch":
						isBuf = true
					}
				}
				if isBuf && capT != nil {
					lens, caps = append(lens, w.t), append(caps, capT)
				}
			}
		}
		if len(lens) == 2 && (k%6 == 1 || k%6 == 4) {
			a, b := 0, 1
			if k%6 == 4 {
				a, b = 1, 0
			}
			steer = append(steer, Lt(lens[a], caps[a]), Gt(Add(lens[a], lens[b]), caps[a]), Ge(lens[a], IntLit(1)))
		}
		preSteer = steer
	}
	for _, pm := range prev {
		var same []*Term
		for _, w := range wants {
			if w.t.Sort != SInt {
				continue
			}
			if n, ok := parseSMTInt(pm[w.key]); ok {
				same = append(same, Eq(w.t, IntBig(n)))
			}
		}
		if len(same) > 0 {
			block = append(block, Not(And(same...)))
		}
	}
	var vals map[string]string
	status := "unknown"
	cellsUsed := int64(0)
	// stage 4 and 5 drop the quantified assumptions (heap contents after append/make/copy): the
	// shapes found may then be spurious, which the run on the real code decides
	stages := [][4]int64{{10, 3, 8, 0}, {20, 4, 12, 0}, {48, 6, 20, 0}, {10, 3, 8, 1}, {48, 6, 15, 1}}
	if undecidableRequires(ct) {
		// quantified preconditions over all buffer objects (pool invariant) cannot be re-checked on
		// a run: only models of the complete assumptions are used
		stages = stages[:3]
		if pre {
			return false, nil
		}
	}
	if pre {
		stages = [][4]int64{{12, 3, 8, 2}, {12, 3, 8, 0}}
	}
	blockBase := block
	for _, b := range stages {
		qfOnly = b[3] == 1
		if pre {
			block = blockBase
			if b[3] == 2 {
				block = append(append([]*Term{}, blockBase...), preSteer...)
			}
		}
		script := Script(od.Ctx, "ALL", boundsFor(b[0], b[1]), goal, true)
		vals, status = evalTerms(script, terms, int(b[2]))
		cellsUsed = b[0]
		if vals != nil {
			break
		}
	}
	det := map[string]interface{}{"model_status": status, "theory": fmt.Sprintf("defined (arithmetic definitions), storage bounded to %d cells per element type, quantified assumptions dropped: %v", cellsUsed, qfOnly)}
	if vals == nil {
		return false, det
	}
	mv := map[string]string{}
	for _, w := range wants {
		mv[w.key] = vals[w.t.String()]
	}
	det["model_values"] = mv
	if strings.HasPrefix(o.Fn, "Frequency.") {
		// native oracle with exact rationals at the model's inputs
		model := map[string]string{"f": mv["f"], "n1": mv["events"], "t1": mv["d"]}
		lemma := "duration-accuracy"
		if o.Fn == "Frequency.Events" {
			lemma = "events-accuracy"
		}
		fo := &Obligation{Name: "Frequency/lemma:" + lemma, Res: &SolveResult{Model: model}}
		ok, d2 := s.replayFrequency(fo)
		for k, v := range d2 {
			det[k] = v
		}
		return ok, det
	}
	src, testName, err := s.genReplayTest(u, o, mv)
	_ = inputs
	if err != nil {
		det["note"] = "no replay harness for this function: " + err.Error()
		return false, det
	}
	det["test_source"] = src
	det["test_name"] = testName
	out, _ := runOverlayTest(src, testName)
	det["test_output"] = truncate(out, 4000)
	if strings.Contains(out, "REPLAY-CONFIRMED") {
		return true, det
	}
	// runtime assertion checking of the contract on this run
	memSizes := map[string]int64{}
	for _, l := range strings.Split(src, "\n") {
		var name, typ string
		var n int64
		if _, err := fmt.Sscanf(strings.TrimSpace(l), "mem_%s := make([]%s %d)", &name, &typ, &n); err == nil {
			memSizes[name] = n
		}
	}
	for _, m := range regexp.MustCompile(`mem_(\w+) := make\(\[\]\w+, (\d+)\)`).FindAllStringSubmatch(src, -1) {
		var n int64
		fmt.Sscan(m[2], &n)
		memSizes[m[1]] = n
	}
	violated, why := s.racCheck(prop, u, o, mv, memSizes, out)
	if why != "" {
		det["runtime_assertion_checking"] = why
	}
	if len(violated) > 0 {
		det["violated_clauses_on_real_code"] = violated
		return true, det
	}
	return false, det
}

// collectWants lists the model terms that describe parameter pn.
func (s *Session) collectWants(u *Unit, pn string, v Value, add func(string, *Term)) {
	st := u.old
	switch v.K {
	case KInt, KBool, KNum:
		if v.Term != nil {
			add(pn, v.Term)
		}
	case KBuf:
		add(pn+".id", v.Term)
		add(pn+".ch", u.bufCh(st, v))
		d := u.bufData(st, v)
		add(pn+".ptr", d.Ptr)
		add(pn+".len", d.Len)
		add(pn+".cap", d.Cap)
		add(pn+".brk", u.brk(st, v.Elem))
	case KSlice:
		add(pn+".ptr", v.Ptr)
		add(pn+".len", v.Len)
		add(pn+".cap", v.Cap)
		if in, ok := v.Elem.(*types.Slice); ok {
			add(pn+".brk", u.brk(st, in.Elem()))
			for c := 0; c < 8; c++ {
				is := u.innerSlice(st, v, IntLit(int64(c)))
				add(fmt.Sprintf("%s[%d].ptr", pn, c), is.Ptr)
				add(fmt.Sprintf("%s[%d].len", pn, c), is.Len)
				add(fmt.Sprintf("%s[%d].cap", pn, c), is.Cap)
			}
		} else {
			add(pn+".brk", u.brk(st, v.Elem))
		}
	case KStruct:
		var names []string
		for k := range v.Fields {
			names = append(names, k)
		}
		sort.Strings(names)
		for _, k := range names {
			s.collectWants(u, pn+"."+k, v.Fields[k], add)
		}
	}
}

func mvInt(mv map[string]string, key string) (int64, bool) {
	n, ok := parseSMTInt(mv[key])
	if !ok || !n.IsInt64() {
		return 0, false
	}
	return n.Int64(), true
}

// goLitNum renders a model value of numeric Go type t as a Go expression.
func (u *Unit) goLitNum(t types.Type, v string) (string, bool) {
	tn := goTypeName(t)
	if isFloatT(t) {
		bits, w, ok := fpBits(v)
		if !ok {
			return "", false
		}
		if w == 32 {
			return fmt.Sprintf("%s(math.Float32frombits(0x%x))", tn, bits), true
		}
		return fmt.Sprintf("%s(math.Float64frombits(0x%x))", tn, bits), true
	}
	if n, w, ok := parseSMTBV(v); ok {
		if !isUnsignedT(t) {
			n = toSigned(n, w)
		}
		return fmt.Sprintf("%s(%s)", tn, n.String()), true
	}
	if n, ok := parseSMTInt(v); ok {
		return fmt.Sprintf("%s(%s)", tn, n.String()), true
	}
	return "", false
}

// genReplayTest generates the in-package test for a function-level obligation.
func (s *Session) genReplayTest(u *Unit, o *Obligation, mv map[string]string) (string, string, error) {
	fi := u.fn
	var sb strings.Builder
	testName := "TestVerifReplay"
	sb.WriteString("package signal\n\nimport (\n\t\"encoding/json\"\n\t\"fmt\"\n\t\"math\"\n\t\"reflect\"\n\t\"runtime\"\n\t\"testing\"\n\t\"unsafe\"\n)\n\nvar _ = runtime.GC\nvar _ = math.Pi\nvar _ = reflect.DeepEqual\nvar _ = unsafe.Pointer(nil)\nvar _ = json.Marshal\n\n")
	sb.WriteString(replayHelpers)
	// named element types
	seenNamed := map[string]bool{}
	for _, a := range u.inst.Args {
		if n, ok := a.(*types.Named); ok && !seenNamed[n.Obj().Name()] {
			seenNamed[n.Obj().Name()] = true
			fmt.Fprintf(&sb, "type %s %s\n\n", n.Obj().Name(), n.Underlying().String())
		}
	}
	sb.WriteString("func " + testName + "(t *testing.T) {\n")
	// backing arrays per element type
	mems := map[string]int64{} // elem type name -> size
	noteMem := func(elem types.Type, brkKey string, need int64) {
		k := goTypeName(elem)
		b, _ := mvInt(mv, brkKey)
		if need > b {
			b = need
		}
		if b > mems[k] {
			mems[k] = b
		}
		if _, ok := mems[k]; !ok {
			mems[k] = b
		}
	}
	type bufP struct {
		name            string
		elem            types.Type
		ch, p, l, c     int64
	}
	var bufs []bufP
	var innerRegions [][4]interface{} // (element type, start, capacity, parameter) of per-channel slices
	var args []string
	var pre strings.Builder
	recvExpr := ""
	params := u.ct.Params
	hasRecv := fi.Sig.Recv() != nil
	for i, pn := range params {
		v, ok := u.entry[pn]
		if !ok {
			return "", "", fmt.Errorf("parameter %s not bound", pn)
		}
		goName := "p_" + sanitize(pn)
		switch v.K {
		case KBuf:
			ch, ok1 := mvInt(mv, pn+".ch")
			p, ok2 := mvInt(mv, pn+".ptr")
			l, ok3 := mvInt(mv, pn+".len")
			c, ok4 := mvInt(mv, pn+".cap")
			if !(ok1 && ok2 && ok3 && ok4) || p < 0 || l < 0 || c < l || p+c > 4096 {
				return "", "", fmt.Errorf("model shape of %s not constructible", pn)
			}
			noteMem(v.Elem, pn+".brk", p+c)
			bufs = append(bufs, bufP{goName, v.Elem, ch, p, l, c})
			// aliasing: same object id as an earlier parameter
			same := ""
			for j := 0; j < i; j++ {
				if pv, ok := u.entry[params[j]]; ok && pv.K == KBuf && types.Identical(pv.Elem, v.Elem) && mv[params[j]+".id"] == mv[pn+".id"] {
					same = "p_" + sanitize(params[j])
				}
			}
			if same != "" {
				fmt.Fprintf(&pre, "\t%s := %s\n", goName, same)
			} else {
				tn := goTypeName(v.Elem)
				fmt.Fprintf(&pre, "\t%s := &Buffer[%s]{channels: channels(%d), data: mem_%s[%d:%d:%d], bitDepth: bitDepth(%d)}\n", goName, tn, ch, tn, p, p+l, p+c, u.widthOf(v.Elem))
			}
		case KSlice:
			if in, ok := v.Elem.(*types.Slice); ok {
				n, ok1 := mvInt(mv, pn+".len")
				if !ok1 || n < 0 || n > 8 {
					return "", "", fmt.Errorf("outer slice %s too long for replay", pn)
				}
				tn := goTypeName(in.Elem())
				fmt.Fprintf(&pre, "\t%s := make([][]%s, %d)\n", goName, tn, n)
				for c := int64(0); c < n; c++ {
					p, ok2 := mvInt(mv, fmt.Sprintf("%s[%d].ptr", pn, c))
					l, ok3 := mvInt(mv, fmt.Sprintf("%s[%d].len", pn, c))
					cp, ok4 := mvInt(mv, fmt.Sprintf("%s[%d].cap", pn, c))
					// a header the obligation does not constrain (its constants are not even declared
					// in the query) may be anything allowed by the precondition: a slice of its own,
					// placed beyond every region the model talks about (those lie below 48)
					if ok3 && !ok4 {
						cp, ok4 = l, true
					}
					if ok3 && ok4 && !ok2 {
						p, ok2 = 64+64*c, true
					}
					if !ok3 && !ok2 && !ok4 {
						p, l, cp, ok2, ok3, ok4 = 64+64*c, 0, 0, true, true, true
					}
					if !(ok2 && ok3 && ok4) || p < 0 || l < 0 || cp < l || p+cp > 4096 {
						return "", "", fmt.Errorf("inner slice of %s not constructible", pn)
					}
					// the values actually used (defaults included) are what the assertion checker sees
					mv[fmt.Sprintf("%s[%d].ptr", pn, c)] = fmt.Sprint(p)
					mv[fmt.Sprintf("%s[%d].len", pn, c)] = fmt.Sprint(l)
					mv[fmt.Sprintf("%s[%d].cap", pn, c)] = fmt.Sprint(cp)
					noteMem(in.Elem(), pn+".brk", p+cp)
					if cp == 0 {
						continue // nil inner slice
					}
					innerRegions = append(innerRegions, [4]interface{}{goTypeName(in.Elem()), p, cp, pn})
					fmt.Fprintf(&pre, "\t%s[%d] = mem_%s[%d:%d:%d]\n", goName, c, tn, p, p+l, p+cp)
				}
			} else {
				p, ok2 := mvInt(mv, pn+".ptr")
				l, ok3 := mvInt(mv, pn+".len")
				c, ok4 := mvInt(mv, pn+".cap")
				if !(ok2 && ok3 && ok4) || p < 0 || l < 0 || c < l || p+c > 4096 {
					return "", "", fmt.Errorf("slice %s not constructible", pn)
				}
				noteMem(v.Elem, pn+".brk", p+c)
				tn := goTypeName(v.Elem)
				fmt.Fprintf(&pre, "\t%s := mem_%s[%d:%d:%d]\n", goName, tn, p, p+l, p+c)
			}
		case KInt:
			n, ok := parseSMTInt(mv[pn])
			if !ok {
				return "", "", fmt.Errorf("no model value for %s", pn)
			}
			tn := "int"
			if v.T != nil {
				tn = types.TypeString(v.T, func(p *types.Package) string {
					if p == s.prog.Pkg.Types {
						return ""
					}
					return p.Name()
				})
			}
			fmt.Fprintf(&pre, "\t%s := %s(%s)\n", goName, tn, n.String())
		case KNum:
			lit, ok := u.goLitNum(v.T, mv[pn])
			if !ok {
				// abstract sample value: any concrete value will do
				lit = goTypeName(v.T) + "(7)"
			}
			fmt.Fprintf(&pre, "\t%s := %s\n", goName, lit)
		case KString:
			fmt.Fprintf(&pre, "\t%s := \"replay\"\n", goName)
		case KStruct:
			switch namedName(v.T) {
			case "Allocator":
				c, _ := mvInt(mv, pn+".Channels")
				l, _ := mvInt(mv, pn+".Length")
				k, _ := mvInt(mv, pn+".Capacity")
				if c*k > 1<<20 || c < 0 || k < 0 || l < 0 {
					return "", "", fmt.Errorf("allocator too large for replay")
				}
				fmt.Fprintf(&pre, "\t%s := Allocator{Channels: %d, Length: %d, Capacity: %d}\n", goName, c, l, k)
			case "C":
				bv := v.Fields["Buffer"]
				ch, ok1 := mvInt(mv, pn+".Buffer.ch")
				p, ok2 := mvInt(mv, pn+".Buffer.ptr")
				l, ok3 := mvInt(mv, pn+".Buffer.len")
				c, ok4 := mvInt(mv, pn+".Buffer.cap")
				cn, ok5 := mvInt(mv, pn+".channel")
				if !(ok1 && ok2 && ok3 && ok4 && ok5) || p < 0 || l < 0 || c < l || p+c > 4096 {
					return "", "", fmt.Errorf("channel view %s not constructible", pn)
				}
				noteMem(bv.Elem, pn+".Buffer.brk", p+c)
				tn := goTypeName(bv.Elem)
				bufs = append(bufs, bufP{goName + ".Buffer", bv.Elem, ch, p, l, c})
				fmt.Fprintf(&pre, "\t%s := C[%s]{Buffer: &Buffer[%s]{channels: channels(%d), data: mem_%s[%d:%d:%d], bitDepth: bitDepth(%d)}, channel: %d}\n",
					goName, tn, tn, ch, tn, p, p+l, p+c, u.widthOf(bv.Elem), cn)
			case "PoolAllocator":
				// a fresh pool with the model's allocator (no pooled items)
				af := v.Fields["alloc"]
				_ = af
				c, _ := mvInt(mv, pn+".alloc.Channels")
				l, _ := mvInt(mv, pn+".alloc.Length")
				k, _ := mvInt(mv, pn+".alloc.Capacity")
				if c < 0 || l < 0 || k < l || c*k > 1<<16 {
					return "", "", fmt.Errorf("pool allocator of the model is not constructible")
				}
				tn := goTypeName(u.poolElem())
				fmt.Fprintf(&pre, "\tpa_%s := PoolAlloc[%s](Allocator{Channels: %d, Length: %d, Capacity: %d})\n\t%s := &pa_%s\n", sanitize(pn), tn, c, l, k, goName, sanitize(pn))
			default:
				return "", "", fmt.Errorf("parameter %s of type %s is not replayable", pn, v.T)
			}
		default:
			return "", "", fmt.Errorf("parameter %s (kind %d) is not replayable", pn, v.K)
		}
		if hasRecv && i == 0 {
			recvExpr = goName
		} else {
			args = append(args, goName)
		}
	}
	// per-channel slices must not overlap a buffer of the same element type nor each other (the
	// quantified non-overlap preconditions of the striped functions; a model found with the
	// quantified assumptions dropped may violate them)
	for i, a := range innerRegions {
		for _, b := range bufs {
			if goTypeName(b.elem) == a[0].(string) && a[1].(int64) < b.p+b.c && b.p < a[1].(int64)+a[2].(int64) {
				return "", "", fmt.Errorf("candidate input violates the non-overlap precondition (per-channel slice overlaps %s)", b.name)
			}
		}
		for j := 0; j < i; j++ {
			b := innerRegions[j]
			if a[3].(string) == "dst" && b[3].(string) == "dst" && b[0].(string) == a[0].(string) && a[1].(int64) < b[1].(int64)+b[2].(int64) && b[1].(int64) < a[1].(int64)+a[2].(int64) {
				return "", "", fmt.Errorf("candidate input violates the non-overlap precondition (per-channel slices overlap)")
			}
		}
	}
	if fi.Sig.Results().Len() > 0 {
		if e, ok := bufElem(u.conc(fi.Sig.Results().At(0).Type())); ok {
			if _, have := mems[goTypeName(e)]; !have {
				mems[goTypeName(e)] = 1
			}
		}
	}
	// declare backing arrays with recognisable contents
	var memNames []string
	for k := range mems {
		memNames = append(memNames, k)
	}
	sort.Strings(memNames)
	var memDecl strings.Builder
	for _, k := range memNames {
		n := mems[k]
		if n < 1 {
			n = 1
		}
		fmt.Fprintf(&memDecl, "\tmem_%s := make([]%s, %d)\n\tfor i := range mem_%s {\n\t\tmem_%s[i] = %s(i%%100 + 1)\n\t}\n", k, k, n, k, k, k)
	}
	sb.WriteString(memDecl.String())
	sb.WriteString(pre.String())
	// snapshot
	for _, k := range memNames {
		fmt.Fprintf(&sb, "\tsnap_%s := append([]%s(nil), mem_%s...)\n", k, k, k)
	}
	for _, b := range bufs {
		fmt.Fprintf(&sb, "\thdr_%s := fmt.Sprint(%s.channels, len(%s.data), cap(%s.data), %s.bitDepth)\n", identOf(b.name), b.name, b.name, b.name, b.name)
	}
	// call
	callee := fi.Decl.Name.Name
	targs := ""
	if fi.Sig.Recv() == nil && len(u.inst.Args) > 0 {
		var ts []string
		for _, a := range u.inst.Args {
			ts = append(ts, goTypeName(a))
		}
		targs = "[" + strings.Join(ts, ", ") + "]"
	}
	call := callee + targs + "(" + strings.Join(args, ", ") + ")"
	if recvExpr != "" {
		call = recvExpr + "." + callee + "(" + strings.Join(args, ", ") + ")"
	}
	sb.WriteString("\tstate := map[string]interface{}{}\n\tpanicked, msg := false, \"\"\n\tfunc() {\n\t\tdefer func() {\n\t\t\tif r := recover(); r != nil {\n\t\t\t\tpanicked, msg = true, fmt.Sprint(r)\n\t\t\t}\n\t\t}()\n")
	if fi.Sig.Results().Len() > 0 {
		sb.WriteString("\t\tres := " + call + "\n\t\tfmt.Printf(\"REPLAY-RESULT %v\\n\", res)\n")
		rt := u.conc(fi.Sig.Results().At(0).Type())
		if e, ok := bufElem(rt); ok {
			tn := goTypeName(e)
			fmt.Fprintf(&sb, "\t\tstate[\"result\"] = verifDumpBuf(res, mem_%s)\n", tn)
		} else if namedName(rt) == "C" {
			sb.WriteString("\t\tstate[\"result\"] = map[string]interface{}{\"channel\": res.channel}\n")
		} else {
			sb.WriteString("\t\tstate[\"result\"] = fmt.Sprint(res)\n")
		}
	} else {
		sb.WriteString("\t\t" + call + "\n")
	}
	sb.WriteString("\t}()\n\tfmt.Printf(\"REPLAY-PANIC %v %q\\n\", panicked, msg)\n")
	sb.WriteString("\tstate[\"panicked\"] = panicked\n")
	for _, b := range bufs {
		fmt.Fprintf(&sb, "\tstate[%q] = verifDumpBuf(%s, mem_%s)\n", b.name, b.name, goTypeName(b.elem))
	}
	for _, k := range memNames {
		fmt.Fprintf(&sb, "\tstate[\"mem_%s\"] = verifDumpMem(mem_%s)\n", k, k)
	}
	sb.WriteString("\tif js, err := json.Marshal(state); err == nil {\n\t\tfmt.Printf(\"REPLAY-STATE %s\\n\", js)\n\t}\n")
	// modified?
	sb.WriteString("\tmodified := false\n")
	for _, k := range memNames {
		fmt.Fprintf(&sb, "\tif !reflect.DeepEqual(snap_%s, mem_%s) {\n\t\tmodified = true\n\t}\n", k, k)
	}
	for _, b := range bufs {
		fmt.Fprintf(&sb, "\tif hdr_%s != fmt.Sprint(%s.channels, len(%s.data), cap(%s.data), %s.bitDepth) {\n\t\tmodified = true\n\t}\n", identOf(b.name), b.name, b.name, b.name, b.name)
	}
	sb.WriteString("\tfmt.Printf(\"REPLAY-MODIFIED %v\\n\", modified)\n")
	// conversion functions (contract with a kernel loop): result k must depend only on source
	// sample k and the two formats. The call is repeated on boundary source samples with two
	// different previous contents of the destination; a covered position whose result differs
	// between the two runs (a store that was skipped, a value mixed with the old content) confirms a
	// violation of C05/C06–C09's "overwrites exactly the first n positions … depending only on …".
	isConv := false
	for _, lc := range u.ct.Loops {
		if lc.Kernel {
			isConv = true
		}
	}
	var srcB, dstB *bufP
	for i := range bufs {
		switch bufs[i].name {
		case "p_src":
			srcB = &bufs[i]
		case "p_dst":
			dstB = &bufs[i]
		}
	}
	if isConv && srcB != nil && dstB != nil && recvExpr == "" {
		dt := goTypeName(dstB.elem)
		st := goTypeName(srcB.elem)
		fmt.Fprintf(&sb, "\tvar depRuns [2][]%s\n\tdepPanicked := false\n\tfor rep := 0; rep < 2; rep++ {\n", dt)
		for _, l := range strings.Split(strings.TrimRight(memDecl.String()+pre.String(), "\n"), "\n") {
			sb.WriteString("\t" + l + "\n")
		}
		for _, k := range memNames {
			fmt.Fprintf(&sb, "\t\t_ = mem_%s\n", k)
		}
		fmt.Fprintf(&sb, "\t\tfor i := range p_src.data {\n\t\t\tp_src.data[i] = verifSpecial[%s](i)\n\t\t}\n", st)
		fmt.Fprintf(&sb, "\t\tfor i := range p_dst.data {\n\t\t\tp_dst.data[i] = %s(3 + 4*rep)\n\t\t}\n", dt)
		sb.WriteString("\t\tfunc() {\n\t\t\tdefer func() {\n\t\t\t\tif recover() != nil {\n\t\t\t\t\tdepPanicked = true\n\t\t\t\t}\n\t\t\t}()\n\t\t\t_ = " + call + "\n\t\t}()\n")
		fmt.Fprintf(&sb, "\t\tdepRuns[rep] = append([]%s(nil), p_dst.data...)\n\t}\n", dt)
		sb.WriteString("\tdepN := len(depRuns[0])\n\tif len(p_src.data) < depN {\n\t\tdepN = len(p_src.data)\n\t}\n")
		sb.WriteString("\tfor k := 0; k < depN && k < len(depRuns[1]) && !depPanicked; k++ {\n\t\tif verifSample(depRuns[0][k]) != verifSample(depRuns[1][k]) {\n")
		sb.WriteString("\t\t\tfmt.Printf(\"REPLAY-CONFIRMED: destination position %d (source sample %v) ends as %v or %v depending on the previous destination content: the result does not depend only on the source sample\\n\", k, verifSpecial[" + st + "](k), depRuns[0][k], depRuns[1][k])\n\t\t\tbreak\n\t\t}\n\t}\n")
	}
	// verdict by obligation kind
	lbl := labelOf(o.Name)
	allocBound := -1
	switch {
	case o.Kind == "alloc-free" || strings.Contains(lbl, "no-alloc"):
		allocBound = 0
	case strings.HasPrefix(lbl, "post:allocs"):
		allocBound = 1
	case hasProp(o.Props, "C18") && !u.ct.Modifies["allocs"]:
		allocBound = 0 // any C18 obligation of a function that must not allocate at all
	}
	if allocBound >= 0 {
		// allocation oracle: the state is rebuilt and the call repeated; the smallest number of
		// mallocs observed during the call (minus the smallest observed for an empty call of the
		// same shape) is a lower bound on what the call itself allocates
		sb.WriteString("\tminAllocs, minBase := uint64(1<<62), uint64(1<<62)\n\tfor rep := 0; rep < 9; rep++ {\n")
		for _, l := range strings.Split(strings.TrimRight(memDecl.String()+pre.String(), "\n"), "\n") {
			sb.WriteString("\t" + l + "\n")
		}
		for _, k := range memNames {
			fmt.Fprintf(&sb, "\t\t_ = mem_%s\n", k)
		}
		sb.WriteString("\t\tvar m0, m1, m2 runtime.MemStats\n\t\truntime.ReadMemStats(&m0)\n\t\tfunc() {\n\t\t\tdefer func() { recover() }()\n\t\t}()\n\t\truntime.ReadMemStats(&m1)\n")
		if fi.Sig.Results().Len() > 0 {
			sb.WriteString("\t\tfunc() {\n\t\t\tdefer func() { recover() }()\n\t\t\t_ = " + call + "\n\t\t}()\n")
		} else {
			sb.WriteString("\t\tfunc() {\n\t\t\tdefer func() { recover() }()\n\t\t\t" + call + "\n\t\t}()\n")
		}
		sb.WriteString("\t\truntime.ReadMemStats(&m2)\n\t\tif d := m1.Mallocs - m0.Mallocs; d < minBase {\n\t\t\tminBase = d\n\t\t}\n\t\tif d := m2.Mallocs - m1.Mallocs; d < minAllocs {\n\t\t\tminAllocs = d\n\t\t}\n\t}\n")
		fmt.Fprintf(&sb, "\tfmt.Printf(\"REPLAY-ALLOCS %%d baseline %%d allowed %d\\n\", minAllocs, minBase)\n", allocBound)
		fmt.Fprintf(&sb, "\tif minAllocs > minBase+%d {\n\t\tfmt.Println(\"REPLAY-CONFIRMED: the call allocates on the heap on an input for which the contract allows at most %d allocation(s)\")\n\t}\n", allocBound, allocBound)
	}
	switch {
	case allocBound >= 0:
	case o.Kind == "no-panic" || o.Kind == "pre@call":
		sb.WriteString("\tif panicked {\n\t\tfmt.Println(\"REPLAY-CONFIRMED: the contract demands no panic for this input, the real code panicked:\", msg)\n\t}\n")
	case o.Kind == "panics-iff" && strings.Contains(lbl, "must-panic"):
		sb.WriteString("\tif !panicked {\n\t\tfmt.Println(\"REPLAY-CONFIRMED: the contract demands a panic for this input, the real code returned normally\")\n\t}\n")
	case o.Kind == "panics-iff" && strings.Contains(lbl, "only-if"):
		sb.WriteString("\tif panicked {\n\t\tfmt.Println(\"REPLAY-CONFIRMED: the real code panicked on an input for which the contract allows no panic:\", msg)\n\t}\n")
	case o.Kind == "panics-iff" && strings.Contains(lbl, "unmodified"):
		sb.WriteString("\tif panicked && modified {\n\t\tfmt.Println(\"REPLAY-CONFIRMED: the real code modified state before panicking\")\n\t}\n")
	case (o.Kind == "writes-nothing" || o.Kind == "writes") && !u.declaresAnyWrite():
		sb.WriteString("\tif modified {\n\t\tfmt.Println(\"REPLAY-CONFIRMED: a read-only operation modified its operands\")\n\t}\n")
	default:
		sb.WriteString("\tfmt.Println(\"REPLAY-INCONCLUSIVE: no executable oracle for this obligation kind; see REPLAY-RESULT / REPLAY-MODIFIED\")\n")
	}
	sb.WriteString("}\n")
	return sb.String(), testName, nil
}

func mathFloat64bits(f float64) uint64 { return mathF64bits(f) }
func mathFloat32bits(f float32) uint32 { return mathF32bits(f) }

// replayHelpers: support code of the generated replay test (dumps the post-state).
const replayHelpers = `
// verifSpecial: boundary sample values by position (0, 1, -1, 2, -2; negatives wrap for unsigned types).
func verifSpecial[T SignalTypes](i int) T {
	var one T = 1
	switch i % 5 {
	case 0:
		return 0
	case 1:
		return one
	case 2:
		return -one
	case 3:
		return one + one
	}
	return -(one + one)
}

type verifBufDump struct {
	Nil   bool     ` + "`json:\"nil\"`" + `
	Ch    int      ` + "`json:\"ch\"`" + `
	Where string   ` + "`json:\"where\"`" + `
	Off   int      ` + "`json:\"off\"`" + `
	Len   int      ` + "`json:\"len\"`" + `
	Cap   int      ` + "`json:\"cap\"`" + `
	BD    int      ` + "`json:\"bd\"`" + `
	Ext   []string ` + "`json:\"ext\"`" + `
}

func verifSample[T SignalTypes](v T) string {
	switch x := any(v).(type) {
	case float32:
		return fmt.Sprintf("f%08x", math.Float32bits(x))
	case float64:
		return fmt.Sprintf("f%016x", math.Float64bits(x))
	}
	rv := reflect.ValueOf(v)
	switch rv.Kind() {
	case reflect.Float32:
		return fmt.Sprintf("f%08x", math.Float32bits(float32(rv.Float())))
	case reflect.Float64:
		return fmt.Sprintf("f%016x", math.Float64bits(rv.Float()))
	case reflect.Uint, reflect.Uint8, reflect.Uint16, reflect.Uint32, reflect.Uint64, reflect.Uintptr:
		return fmt.Sprint(rv.Uint())
	}
	return fmt.Sprint(rv.Int())
}

func verifDumpMem[T SignalTypes](m []T) []string {
	out := make([]string, len(m))
	for i, v := range m {
		out[i] = verifSample(v)
	}
	return out
}

// verifDumpBuf describes a buffer header; storage outside the test's backing
// array (a growing append, a fresh allocation) is dumped in full.
func verifDumpBuf[T SignalTypes](b *Buffer[T], mem []T) verifBufDump {
	if b == nil {
		return verifBufDump{Nil: true}
	}
	d := verifBufDump{Ch: int(b.channels), Len: len(b.data), Cap: cap(b.data), BD: int(b.bitDepth), Where: "mem"}
	if cap(b.data) == 0 {
		return d
	}
	var z T
	sz := unsafe.Sizeof(z)
	p := uintptr(unsafe.Pointer(unsafe.SliceData(b.data)))
	base := uintptr(unsafe.Pointer(unsafe.SliceData(mem)))
	if len(mem) > 0 && p >= base && p < base+uintptr(len(mem))*sz {
		d.Off = int((p - base) / sz)
		return d
	}
	d.Where = "ext"
	full := b.data[:cap(b.data)]
	d.Ext = verifDumpMem(full)
	return d
}

`

func identOf(s string) string { return strings.NewReplacer(".", "_", "[", "_", "]", "_").Replace(sanitize(s)) }
