package main

import (
	"fmt"
	"go/token"
	"go/types"
	"math/big"
	"strings"
)

// SpecEnv is the environment in which a contract expression is evaluated.
type SpecEnv struct {
	u     *Unit
	cur   *State
	old   *State
	vars  map[string]Value
	tvars map[string]types.Type
	kord  int // kernel loop ordinal for K(x); 0 = none
	inOld bool
	pre   *State // state at loop entry (loop clauses only)
}

func (e *SpecEnv) with(name string, v Value) *SpecEnv {
	n := *e
	n.vars = map[string]Value{}
	for k, x := range e.vars {
		n.vars[k] = x
	}
	n.vars[name] = v
	return &n
}

func (e *SpecEnv) st() *State {
	if e.inOld {
		return e.old
	}
	return e.cur
}

func intV(t *Term) Value  { return Value{K: KInt, T: types.Typ[types.Int], Term: t} }
func boolV(t *Term) Value { return Value{K: KBool, T: types.Typ[types.Bool], Term: t} }

func (u *Unit) evalSpecBool(env *SpecEnv, e *SExpr) *Term {
	v := u.evalSpec(env, e)
	if v.K != KBool {
		u.errorf("spec: expected boolean in %s", e)
		return True
	}
	return v.Term
}

func (u *Unit) specType(env *SpecEnv, e *SExpr) (types.Type, bool) {
	if e.Kind == "id" {
		if t, ok := env.tvars[e.Name]; ok {
			return t, true
		}
		for _, k := range basicNumeric {
			if types.Typ[k].Name() == e.Name {
				return types.Typ[k], true
			}
		}
	}
	return nil, false
}

// elemOf finds the element type designated by a spec argument: a buffer, a slice or a type name.
func (u *Unit) elemOf(env *SpecEnv, e *SExpr) types.Type {
	if t, ok := u.specType(env, e); ok {
		return t
	}
	v := u.evalSpec(env, e)
	switch v.K {
	case KBuf:
		return v.Elem
	case KSlice:
		if in, ok := v.Elem.(*types.Slice); ok {
			return in.Elem()
		}
		return v.Elem
	case KPtrData:
		return v.Elem
	}
	u.errorf("spec: cannot determine element type of %s", e)
	return types.Typ[types.Int8]
}

func (u *Unit) evalSpec(env *SpecEnv, e *SExpr) Value {
	switch e.Kind {
	case "num":
		if strings.ContainsAny(e.Name, ".e") {
			return Value{K: KNum, T: types.Typ[types.Float64], Term: realOfText(e.Name), Spec: IntLit(0)}
		}
		n, _ := new(big.Int).SetString(e.Name, 10)
		return intV(IntBig(n))
	case "id":
		switch e.Name {
		case "true":
			return boolV(True)
		case "false":
			return boolV(False)
		case "allocs":
			return intV(u.comp(env.st(), "allocs", SInt))
		}
		if v, ok := env.vars[e.Name]; ok {
			return v
		}
		u.errorf("spec: unbound name %s", e.Name)
		return intV(IntLit(0))
	case "un":
		x := u.evalSpec(env, e.Args[0])
		if e.Name == "!" {
			return boolV(Not(x.Term))
		}
		if x.K == KInt {
			return intV(Neg(x.Term))
		}
		return u.numNeg(x, x.T)
	case "bin":
		return u.evalSpecBin(env, e)
	case "field":
		x := u.evalSpec(env, e.Args[0])
		switch x.K {
		case KBuf:
			switch e.Name {
			case "channels":
				return intV(u.bufCh(env.st(), x))
			case "data":
				return u.bufData(env.st(), x)
			case "bitDepth":
				return Value{K: KNum, T: u.bdType(), Term: u.bufBD(env.st(), x)}
			}
		case KStruct:
			if f, ok := x.Fields[e.Name]; ok {
				return f
			}
		}
		u.errorf("spec: no field %s in %s", e.Name, e)
		return intV(IntLit(0))
	case "index":
		x := u.evalSpec(env, e.Args[0])
		i := u.evalSpec(env, e.Args[1])
		if x.K == KSlice {
			if _, ok := x.Elem.(*types.Slice); ok {
				return u.innerSlice(env.st(), x, i.Term)
			}
			return u.specLoad(env, x, i.Term)
		}
		u.errorf("spec: index on non-slice %s", e)
		return intV(IntLit(0))
	case "call":
		return u.evalSpecCall(env, e)
	}
	u.errorf("spec: cannot evaluate %s", e)
	return intV(IntLit(0))
}

func (u *Unit) specLoad(env *SpecEnv, s Value, idx *Term) Value {
	v := Value{K: KNum, T: s.Elem, Term: Select(u.heap(env.st(), s.Elem), Add(s.Ptr, idx))}
	if v.Term.Sort == SReal {
		v.Spec = IntLit(0)
	}
	return v
}

func (u *Unit) evalSpecBin(env *SpecEnv, e *SExpr) Value {
	switch e.Name {
	case "==>":
		a := u.evalSpecBool(env, e.Args[0])
		b := u.evalSpecBool(env, e.Args[1])
		return boolV(Imp(a, b))
	case "<==>":
		a := u.evalSpecBool(env, e.Args[0])
		b := u.evalSpecBool(env, e.Args[1])
		return boolV(Eq(a, b))
	case "&&":
		return boolV(And(u.evalSpecBool(env, e.Args[0]), u.evalSpecBool(env, e.Args[1])))
	case "||":
		return boolV(Or(u.evalSpecBool(env, e.Args[0]), u.evalSpecBool(env, e.Args[1])))
	}
	x := u.evalSpec(env, e.Args[0])
	y := u.evalSpec(env, e.Args[1])
	if e.Name == "==" || e.Name == "!=" {
		eq := u.valuesEqual(x, y)
		if e.Name == "!=" {
			eq = Not(eq)
		}
		return boolV(eq)
	}
	if x.Term != nil && y.Term != nil && x.Term.Sort == SInt && y.Term.Sort == SInt {
		switch e.Name {
		case "+":
			return intV(Add(x.Term, y.Term))
		case "-":
			return intV(Sub(x.Term, y.Term))
		case "*":
			return intV(Mul(x.Term, y.Term))
		case "/":
			return intV(mk("div", SInt, x.Term, y.Term))
		case "%":
			return intV(mk("mod", SInt, x.Term, y.Term))
		case "<":
			return boolV(Lt(x.Term, y.Term))
		case "<=":
			return boolV(Le(x.Term, y.Term))
		case ">":
			return boolV(Gt(x.Term, y.Term))
		case ">=":
			return boolV(Ge(x.Term, y.Term))
		}
	}
	if x.K == KNum && y.K == KNum && x.Term.Sort == y.Term.Sort && x.Term.Sort != SReal {
		if tok, ok := specTok[e.Name]; ok {
			v, _ := u.numBinary(tok, x, y, x.T)
			return v
		}
	}
	// real arithmetic (realfloat specs)
	if x.Term != nil && y.Term != nil && (x.Term.Sort == SReal || y.Term.Sort == SReal) {
		a, b := toReal(x.Term), toReal(y.Term)
		rv := func(t *Term) Value { return Value{K: KNum, T: types.Typ[types.Float64], Term: t, Spec: IntLit(0)} }
		switch e.Name {
		case "+":
			return rv(mk("+", SReal, a, b))
		case "-":
			return rv(mk("-", SReal, a, b))
		case "*":
			return rv(mk("*", SReal, a, b))
		case "/":
			return rv(mk("/", SReal, a, b))
		case "<":
			return boolV(Lt(a, b))
		case "<=":
			return boolV(Le(a, b))
		case ">":
			return boolV(Gt(a, b))
		case ">=":
			return boolV(Ge(a, b))
		}
	}
	u.errorf("spec: unsupported operator %s in %s (kinds %d %d)", e.Name, e, x.K, y.K)
	return intV(IntLit(0))
}

func toReal(t *Term) *Term {
	if t.Sort == SInt {
		if n, ok := isIntLit(t); ok {
			if n < 0 {
				return mk("-", SReal, RealLit(fmt.Sprint(-n)+".0"))
			}
			return RealLit(fmt.Sprint(n) + ".0")
		}
		return mk("to_real", SReal, t)
	}
	return t
}

func (u *Unit) valuesEqual(x, y Value) *Term {
	if x.K == KIface && x.Inner != nil {
		x = *x.Inner
	}
	if y.K == KIface && y.Inner != nil {
		y = *y.Inner
	}
	switch {
	case x.K == KSlice && y.K == KSlice:
		return And(Eq(x.Ptr, y.Ptr), Eq(x.Len, y.Len), Eq(x.Cap, y.Cap))
	case x.K == KStruct && y.K == KStruct:
		var cs []*Term
		for k, f := range x.Fields {
			if g, ok := y.Fields[k]; ok && f.K != KClosure && f.K != KString {
				cs = append(cs, u.valuesEqual(f, g))
			}
		}
		return And(cs...)
	case x.Term != nil && y.Term != nil:
		if x.Term.Sort != y.Term.Sort {
			if (x.Term.Sort == SReal && y.Term.Sort == SInt) || (x.Term.Sort == SInt && y.Term.Sort == SReal) {
				return Eq(toReal(x.Term), toReal(y.Term))
			}
			u.errorf("spec: comparing values of different sorts %s / %s", x.Term.Sort, y.Term.Sort)
			return True
		}
		if isFP(x.Term) {
			// specification equality on floats is bit equality up to NaN: (x = y) in SMT
			return Eq(x.Term, y.Term)
		}
		return Eq(x.Term, y.Term)
	}
	u.errorf("spec: cannot compare values")
	return True
}

// boundVar creates a quantifier-bound Int variable.
func boundVar(name string) *Term { return &Term{Op: name, Sort: SInt} }

func (u *Unit) evalSpecCall(env *SpecEnv, e *SExpr) Value {
	arg := func(i int) Value { return u.evalSpec(env, e.Args[i]) }
	nargs := func(n int) bool {
		if len(e.Args) != n {
			u.errorf("spec: %s expects %d arguments", e.Name, n)
			return false
		}
		return true
	}
	switch e.Name {
	case "old":
		if !nargs(1) {
			return intV(IntLit(0))
		}
		n := *env
		n.inOld = true
		return u.evalSpec(&n, e.Args[0])
	case "before":
		// before(e): e evaluated in the state at loop entry
		if env.pre == nil {
			u.errorf("spec: before() outside a loop clause")
			return intV(IntLit(0))
		}
		n := *env
		n.cur = env.pre
		n.inOld = false
		return u.evalSpec(&n, e.Args[0])
	case "loopSameExcept":
		// like sameExcept, relative to the state at loop entry
		if env.pre == nil {
			u.errorf("spec: loopSameExcept() outside a loop clause")
			return boolV(True)
		}
		n := *env
		n.old = env.pre
		e2 := *e
		e2.Name = "sameExcept"
		return u.evalSpec(&n, &e2)
	case "spareDisjoint":
		// readable(src) does not overlap the spare capacity of dst
		a, b := arg(0), arg(1)
		if !types.Identical(a.Elem, b.Elem) {
			return boolV(True)
		}
		sd, dd := u.bufData(env.st(), a), u.bufData(env.st(), b)
		return boolV(Or(Le(Add(sd.Ptr, sd.Len), Add(dd.Ptr, dd.Len)), Le(Add(dd.Ptr, dd.Cap), sd.Ptr)))
	case "len", "cap", "ptr":
		v := arg(0)
		if v.K == KPtrData {
			v = u.bufData(env.st(), Value{K: KBuf, Term: v.Term, Elem: v.Elem})
		}
		if v.K != KSlice {
			u.errorf("spec: %s of non-slice in %s", e.Name, e)
			return intV(IntLit(0))
		}
		switch e.Name {
		case "len":
			return intV(v.Len)
		case "cap":
			return intV(v.Cap)
		}
		return intV(v.Ptr)
	case "at":
		b := arg(0)
		p := arg(1)
		if b.K == KBuf {
			return u.specLoad(env, u.bufData(env.st(), b), p.Term)
		}
		if b.K == KSlice {
			return u.specLoad(env, b, p.Term)
		}
		u.errorf("spec: at() on non-buffer")
		return intV(IntLit(0))
	case "inner":
		return u.innerSlice(env.st(), arg(0), arg(1).Term)
	case "forall", "exists":
		// forall(v, lo, hi, body)  |  forall(v, w, lo, hi, lo2, hi2, body) not supported: nest instead
		if !nargs(4) {
			return boolV(True)
		}
		name := e.Args[0].Name
		bv := boundVar(name + "?" + fmt.Sprint(u.nextBound()))
		lo, hi := arg(1), arg(2)
		body := u.evalSpecBool(env.with(name, intV(bv)), e.Args[3])
		rng := And(Le(lo.Term, bv), Lt(bv, hi.Term))
		if e.Name == "forall" {
			return boolV(Forall([]*Term{bv}, Imp(rng, body)))
		}
		return boolV(Exists([]*Term{bv}, And(rng, body)))
	case "forallInt":
		// forallInt(v, body): unbounded
		name := e.Args[0].Name
		bv := boundVar(name + "?" + fmt.Sprint(u.nextBound()))
		body := u.evalSpecBool(env.with(name, intV(bv)), e.Args[1])
		return boolV(Forall([]*Term{bv}, body))
	case "forallS":
		// forallS(x, T, body): x ranges over all values of element type T
		name := e.Args[0].Name
		t := u.elemOf(env, e.Args[1])
		bvx := &Term{Op: name + "?" + fmt.Sprint(u.nextBound()), Sort: u.elemSort(t)}
		body := u.evalSpecBool(env.with(name, Value{K: KNum, T: t, Term: bvx}), e.Args[2])
		return boolV(Forall([]*Term{bvx}, body))
	case "disjoint":
		// disjoint(x, y): the readable extents of x and y do not overlap (true for different element types)
		ext := func(v Value) (types.Type, *Term, *Term) {
			switch v.K {
			case KBuf:
				d := u.bufData(env.st(), v)
				return v.Elem, d.Ptr, d.Len
			case KSlice:
				return v.Elem, v.Ptr, v.Len
			}
			u.errorf("spec: disjoint on unsupported value")
			return nil, IntLit(0), IntLit(0)
		}
		t1, p1, l1 := ext(arg(0))
		t2, p2, l2 := ext(arg(1))
		if t1 == nil || t2 == nil || !types.Identical(t1, t2) {
			return boolV(True)
		}
		return boolV(Or(Le(Add(p1, l1), p2), Le(Add(p2, l2), p1)))
	case "ite":
		c := u.evalSpecBool(env, e.Args[0])
		a, b := arg(1), arg(2)
		r := a
		r.Term = Ite(c, a.Term, b.Term)
		return r
	case "min", "max":
		a, b := arg(0), arg(1)
		if e.Name == "min" {
			return intV(Ite(Lt(a.Term, b.Term), a.Term, b.Term))
		}
		return intV(Ite(Gt(a.Term, b.Term), a.Term, b.Term))
	case "bi":
		return intV(u.specBI(arg(0).Term, arg(1).Term, arg(2).Term))
	case "cdiv":
		return intV(u.specFn("cdiv", arg(0).Term, arg(1).Term))
	case "fdiv":
		return intV(u.specFn("fdiv", arg(0).Term, arg(1).Term))
	case "chanOf":
		return intV(u.specFn("chanOf", arg(0).Term, arg(1).Term))
	case "frameOf":
		return intV(u.specFn("frameOf", arg(0).Term, arg(1).Term))
	case "wf":
		return boolV(u.wf(env.st(), arg(0)))
	case "wfBase":
		return boolV(u.wfBase(env.st(), arg(0)))
	case "aligned":
		b := arg(0)
		d := u.bufData(env.st(), b)
		ch := u.bufCh(env.st(), b)
		return boolV(Imp(Ge(ch, IntLit(1)), Eq(d.Len, u.specBI(ch, IntLit(0), u.specFn("fdiv", d.Len, ch)))))
	case "validSlice":
		return boolV(u.validSlice(env.st(), arg(0)))
	case "zero":
		t := u.elemOf(env, e.Args[0])
		return u.zeroOf(t, true)
	case "width":
		t := u.elemOf(env, e.Args[0])
		return Value{K: KNum, T: u.bdType(), Term: BVLit64(int64(u.widthOf(t)), 8)}
	case "conv":
		// conv(S, D, x)
		s := u.elemOf(env, e.Args[0])
		d := u.elemOf(env, e.Args[1])
		x := arg(2)
		x.T = s
		return u.convertNum(env.st(), x, d, true)
	case "maxSigned", "minSigned", "maxUnsigned":
		// bit-depth tables computed from the mathematical definitions (property C16):
		// maxSigned(b) = 2^(b-1)-1, minSigned(b) = -2^(b-1), maxUnsigned(b) = 2^b-1 for 1 <= b <= 64; 0 for b = 0
		b := arg(0)
		rt := types.Typ[types.Int64]
		if e.Name == "maxUnsigned" {
			rt = types.Typ[types.Uint64]
		}
		val := func(d int) *big.Int {
			if d == 0 {
				return big.NewInt(0)
			}
			switch e.Name {
			case "maxSigned":
				return new(big.Int).Sub(new(big.Int).Lsh(big.NewInt(1), uint(d-1)), big.NewInt(1))
			case "minSigned":
				return new(big.Int).Neg(new(big.Int).Lsh(big.NewInt(1), uint(d-1)))
			}
			return new(big.Int).Sub(new(big.Int).Lsh(big.NewInt(1), uint(d)), big.NewInt(1))
		}
		if n, _, ok := bvLitVal(b.Term); ok && n.Int64() <= 64 {
			return Value{K: KNum, T: rt, Term: BVLit(val(int(n.Int64())), 64)}
		}
		t := BVLit(val(64), 64)
		for d := 63; d >= 0; d-- {
			t = Ite(Eq(b.Term, BVLit64(int64(d), 8)), BVLit(val(d), 64), t)
		}
		return Value{K: KNum, T: rt, Term: t}
	case "pow2T":
		// pow2T(T, d): the value 2^d in integer type T (d a bit-depth difference)
		t := u.elemOf(env, e.Args[0])
		d := arg(1)
		sort := u.numSort(t, true)
		if strings.HasPrefix(sort, "U_") {
			return Value{K: KNum, T: t, Term: u.ctx.App("pow2_"+sort[2:], sort, d.Term)}
		}
		w := u.widthOf(t)
		if n, _, ok := bvLitVal(d.Term); ok {
			return Value{K: KNum, T: t, Term: BVLit(new(big.Int).Lsh(big.NewInt(1), uint(n.Int64())), w)}
		}
		r := BVLit64(0, w)
		for k := w - 1; k >= 0; k-- {
			r = Ite(Eq(d.Term, BVLit64(int64(k), 8)), BVLit(new(big.Int).Lsh(big.NewInt(1), uint(k)), w), r)
		}
		return Value{K: KNum, T: t, Term: r}
	case "fitsPow2":
		// fitsPow2(T, d): 2^d is representable in T
		t := u.elemOf(env, e.Args[0])
		d := arg(1)
		lim := u.widthOf(t)
		if !isUnsignedT(t) {
			lim--
		}
		return boolV(mk("bvult", SBool, d.Term, BVLit64(int64(lim), 8)))
	case "bv8":
		if n, ok := isIntLit(arg(0).Term); ok {
			return Value{K: KNum, T: u.bdType(), Term: BVLit64(n, 8)}
		}
		u.errorf("spec: bv8 needs a literal")
		return Value{K: KNum, T: u.bdType(), Term: BVLit64(0, 8)}
	case "heapSame":
		t := u.elemOf(env, e.Args[0])
		return boolV(Eq(u.heap(env.cur, t), u.heap(env.old, t)))
	case "sameExcept":
		// sameExcept(x, lo, hi): the element heap of x is unchanged outside
		// addresses [base+lo, base+hi) where base = old(ptr(x.data)) / ptr(x)
		x := arg(0)
		var base *Term
		var elem types.Type
		switch x.K {
		case KBuf:
			base = u.bufData(env.old, x).Ptr
			elem = x.Elem
		case KSlice:
			base = x.Ptr
			elem = x.Elem
		default:
			u.errorf("spec: sameExcept on unsupported value")
			return boolV(True)
		}
		lo, hi := arg(1).Term, arg(2).Term
		q := boundVar("q?" + fmt.Sprint(u.nextBound()))
		in := And(Le(Add(base, lo), q), Lt(q, Add(base, hi)))
		return boolV(Forall([]*Term{q}, Imp(Not(in), Eq(Select(u.heap(env.cur, elem), q), Select(u.heap(env.old, elem), q)))))
	case "stored":
		// stored(b, i, v): the element heap of b is exactly the old heap with v stored at position i of b
		b := arg(0)
		n := *env
		n.inOld = true
		i := u.evalSpec(&n, e.Args[1])
		v := u.evalSpec(&n, e.Args[2])
		if b.K != KBuf {
			u.errorf("spec: stored() on non-buffer")
			return boolV(True)
		}
		d := u.bufData(env.old, b)
		return boolV(Eq(u.heap(env.cur, b.Elem), Store(u.heap(env.old, b.Elem), Add(d.Ptr, i.Term), v.Term)))
	case "cell":
		// cell(T, q): the heap cell of element type T at absolute address q
		t := u.elemOf(env, e.Args[0])
		return Value{K: KNum, T: t, Term: Select(u.heap(env.st(), t), arg(1).Term)}
	case "forallBuf":
		// forallBuf(b, T, body): b ranges over all buffer objects of element type T
		name := e.Args[0].Name
		t := u.elemOf(env, e.Args[1])
		bvx := &Term{Op: name + "?" + fmt.Sprint(u.nextBound()), Sort: SInt}
		body := u.evalSpecBool(env.with(name, Value{K: KBuf, Elem: t, Term: bvx}), e.Args[2])
		return boolV(Forall([]*Term{bvx}, body))
	case "inPool":
		p, b := arg(0), arg(1)
		return boolV(Select(Select(u.comp(env.st(), "items", SArr(SInt, SArr(SInt, SBool))), p.Term), b.Term))
	case "poolNewIs":
		// the allocator captured by the New closure of pool p equals a
		p, a := arg(0), arg(1)
		var cs []*Term
		for fname, f := range a.Fields {
			if f.K == KInt {
				cs = append(cs, Eq(Select(u.comp(env.st(), "pcap.a."+fname, arrII), p.Term), f.Term))
			}
		}
		return boolV(And(cs...))
	case "allocOK":
		a := arg(0)
		c, l, k := a.Fields["Channels"].Term, a.Fields["Length"].Term, a.Fields["Capacity"].Term
		return boolV(And(Le(IntLit(0), c), Le(IntLit(0), l), Le(l, k), Le(u.specBI(c, IntLit(0), k), IntLit(maxSliceLen))))
	case "pristine":
		// pristine(b, a): b is indistinguishable from Alloc(a)
		b, a := arg(0), arg(1)
		c, l, k := a.Fields["Channels"].Term, a.Fields["Length"].Term, a.Fields["Capacity"].Term
		d := u.bufData(env.st(), b)
		q := boundVar("q?" + fmt.Sprint(u.nextBound()))
		zero := u.zeroOf(b.Elem, true).Term
		return boolV(And(u.wf(env.st(), b), Eq(u.bufCh(env.st(), b), c),
			Eq(d.Len, u.specBI(c, IntLit(0), l)), Eq(d.Cap, u.specBI(c, IntLit(0), k)),
			Forall([]*Term{q}, Imp(And(Le(IntLit(0), q), Lt(q, d.Cap)), Eq(Select(u.heap(env.st(), b.Elem), Add(d.Ptr, q)), zero)))))
	case "disjointWindows":
		a, b := arg(0), arg(1)
		da, db := u.bufData(env.st(), a), u.bufData(env.st(), b)
		return boolV(Or(Le(Add(da.Ptr, da.Cap), db.Ptr), Le(Add(db.Ptr, db.Cap), da.Ptr)))
	case "freshPool":
		p := arg(0)
		return boolV(And(Ge(p.Term, u.comp(env.old, "pbrk", SInt)), Lt(p.Term, u.comp(env.cur, "pbrk", SInt))))
	case "rnd":
		// standard-model rounding to binary64
		a := toReal(arg(0).Term)
		u.noteRnd(a)
		return Value{K: KNum, T: types.Typ[types.Float64], Term: u.rnd(a), Spec: IntLit(0)}
	case "round":
		// round half away from zero, as an integer
		a := toReal(arg(0).Term)
		half := RealLit("0.5")
		return intV(Ite(Ge(a, RealLit("0.0")), mk("to_int", SInt, mk("+", SReal, a, half)), Neg(mk("to_int", SInt, mk("+", SReal, mk("-", SReal, a), half)))))
	case "real":
		return Value{K: KNum, T: types.Typ[types.Float64], Term: toReal(arg(0).Term), Spec: IntLit(0)}
	case "heapSameBelow":
		// heapSameBelow(x): every cell allocated in the old state is unchanged
		t := u.elemOf(env, e.Args[0])
		q := boundVar("q?" + fmt.Sprint(u.nextBound()))
		return boolV(Forall([]*Term{q}, Imp(Lt(q, u.brk(env.old, t)), Eq(Select(u.heap(env.cur, t), q), Select(u.heap(env.old, t), q)))))
	case "anyDataPtr":
		// a pointer to the data field of an arbitrary buffer of element type T
		t := u.elemOf(env, e.Args[0])
		return Value{K: KPtrData, Elem: t, Term: u.ctx.Fresh("anybuf", SInt)}
	case "hdrSame":
		t := u.elemOf(env, e.Args[0])
		var cs []*Term
		for _, f := range hdrFields {
			cs = append(cs, Eq(u.fld(env.cur, t, f), u.fld(env.old, t, f)))
		}
		return boolV(And(cs...))
	case "hdrSameExcept":
		b := arg(0)
		o := boundVar("o?" + fmt.Sprint(u.nextBound()))
		var cs []*Term
		for _, f := range hdrFields {
			cs = append(cs, Eq(Select(u.fld(env.cur, b.Elem, f), o), Select(u.fld(env.old, b.Elem, f), o)))
		}
		return boolV(Forall([]*Term{o}, Imp(Ne(o, b.Term), And(cs...))))
	case "fresh":
		b := arg(0)
		return boolV(And(Ge(b.Term, u.obrk(env.old, b.Elem)), Lt(b.Term, u.obrk(env.cur, b.Elem))))
	case "freshStorage":
		s := arg(0)
		if s.K == KBuf {
			s = u.bufData(env.cur, s)
		}
		return boolV(And(Ge(s.Ptr, u.brk(env.old, s.Elem)), Le(Add(s.Ptr, s.Cap), u.brk(env.cur, s.Elem))))
	case "brkSame":
		t := u.elemOf(env, e.Args[0])
		return boolV(And(Eq(u.brk(env.cur, t), u.brk(env.old, t)), Eq(u.obrk(env.cur, t), u.obrk(env.old, t))))
	case "brk":
		t := u.elemOf(env, e.Args[0])
		return intV(u.brk(env.st(), t))
	case "unchanged":
		// every state component equals its value in the old state
		var cs []*Term
		keys := map[string]bool{}
		for k := range env.cur.mem {
			keys[k] = true
		}
		for _, k := range sortedKeysB(keys) {
			if o, ok := env.old.mem[k]; ok {
				cs = append(cs, Eq(env.cur.mem[k], o))
			} else if o, ok := u.initMem[k]; ok {
				cs = append(cs, Eq(env.cur.mem[k], o))
			}
		}
		return boolV(And(cs...))
	case "K":
		x := arg(0)
		k := u.kernelFor(env.kord)
		if k == nil {
			// no kernel loop was executed on this path (early return): an arbitrary function
			s0, d0 := u.kernelTypes()
			return Value{K: KNum, T: d0, Term: u.ctx.App("K0", u.elemSort(d0), Value{K: KNum, T: s0, Term: x.Term}.Term)}
		}
		return Value{K: KNum, T: k.DstElem, Term: u.ctx.App(k.Name, u.elemSort(k.DstElem), x.Term)}
	case "inInt64":
		return boolV(u.int64Range(arg(0).Term))
	case "pow2":
		if n, ok := isIntLit(arg(0).Term); ok && n >= 0 && n < 4096 {
			return intV(IntBig(new(big.Int).Lsh(big.NewInt(1), uint(n))))
		}
		u.errorf("spec: pow2 needs a literal exponent")
		return intV(IntLit(1))
	case "deref":
		v := arg(0)
		if v.K == KPtrData {
			return u.bufData(env.st(), Value{K: KBuf, Term: v.Term, Elem: v.Elem})
		}
		u.errorf("spec: deref of non-pointer")
		return v
	case "bufOf":
		v := arg(0)
		return Value{K: KBuf, Term: v.Term, Elem: v.Elem}
	}
	if f, ok := specExt[e.Name]; ok {
		return f(u, env, e)
	}
	u.errorf("spec: unknown function %s", e.Name)
	return intV(IntLit(0))
}

var specTok = map[string]token.Token{"+": token.ADD, "-": token.SUB, "*": token.MUL, "/": token.QUO, "%": token.REM,
	"<": token.LSS, "<=": token.LEQ, ">": token.GTR, ">=": token.GEQ}

var specExt = map[string]func(u *Unit, env *SpecEnv, e *SExpr) Value{}

func (u *Unit) nextBound() int {
	u.boundN++
	return u.boundN
}

// ---- frame theory: bi / cdiv / fdiv / chanOf / frameOf ---------------------------------
//
// In "defined" theory the spec functions have their arithmetic definitions:
//   bi(ch,c,i) = ch*i + c, fdiv(n,ch) = n div ch, cdiv(n,ch) = (n+ch-1) div ch,
//   chanOf(ch,p) = p mod ch, frameOf(ch,p) = p div ch.
// In "axioms" theory they are uninterpreted and the lemmas of frameAxioms()
// (each proved separately under the definitions) are assumed.

func (u *Unit) specBI(ch, c, i *Term) *Term {
	if u.theory == "defined" {
		return Add(Mul(ch, i), c)
	}
	return u.ctx.App("bi", SInt, ch, c, i)
}

func (u *Unit) specFn(name string, a, b *Term) *Term {
	if u.theory == "defined" {
		switch name {
		case "fdiv":
			return mk("div", SInt, a, b)
		case "cdiv":
			return mk("div", SInt, Sub(Add(a, b), IntLit(1)), b)
		case "chanOf":
			return mk("mod", SInt, b, a)
		case "frameOf":
			return mk("div", SInt, b, a)
		}
	}
	return u.ctx.App(name, SInt, a, b)
}

// wf(b): representation invariant of a buffer (DESIGN §4).
func (u *Unit) wf(st *State, b Value) *Term {
	if b.K != KBuf {
		u.errorf("spec: wf of non-buffer")
		return True
	}
	d := u.bufData(st, b)
	ch := u.bufCh(st, b)
	return And(u.wfBase(st, b),
		Imp(Ge(ch, IntLit(1)), Eq(d.Cap, u.specBI(ch, IntLit(0), u.specFn("fdiv", d.Cap, ch)))),
		Imp(Eq(ch, IntLit(0)), Eq(d.Cap, IntLit(0))))
}

// wfBase: wf without the capacity-alignment clause (the state inside Append before alignCapacity).
func (u *Unit) wfBase(st *State, b Value) *Term {
	if b.K != KBuf {
		u.errorf("spec: wfBase of non-buffer")
		return True
	}
	d := u.bufData(st, b)
	ch := u.bufCh(st, b)
	bd := Select(u.fld(st, b.Elem, "bd"), b.Term)
	return And(
		Ge(b.Term, IntLit(0)), Lt(b.Term, u.obrk(st, b.Elem)),
		Ge(ch, IntLit(0)), u.intRangeOf(ch, types.Typ[types.Int]), // the field is a Go int
		u.validSlice(st, d),
		Eq(bd, BVLit64(int64(u.widthOf(b.Elem)), 8)),
	)
}
