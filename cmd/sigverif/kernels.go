package main

import (
	"sort"
	"fmt"
	"go/types"
	"math/big"
	"sync"
)

// KernelInfo is the per-sample kernel of a conversion function at one
// instantiation, extracted from the real loop body in precise (bit-vector /
// IEEE-754) mode.
type KernelInfo struct {
	Fn   string
	Inst *Inst
	S, D types.Type
	X    *Term
	Body *Term
	OK   bool
	Why  string
	Errs []string
	U    *Unit
}

func (k *KernelInfo) apply(arg *Term) *Term {
	return Subst(k.Body, map[string]*Term{k.X.String(): arg})
}

var (
	kernelMu    sync.Mutex
	kernelCache = map[string]*KernelInfo{}
)

func (s *Session) preciseKernel(key string, in *Inst) *KernelInfo {
	ck := key + "[" + in.Name + "]"
	kernelMu.Lock()
	if k, ok := kernelCache[ck]; ok {
		kernelMu.Unlock()
		return k
	}
	kernelMu.Unlock()
	fi := s.prog.Funcs[key]
	ct := s.cf.Funcs[key]
	ki := &KernelInfo{Fn: key, Inst: in}
	if fi == nil || ct == nil {
		ki.Why = "function or contract missing"
		return ki
	}
	u := newUnit(s.prog, s.cf, fi, ct, in, "precise")
	func() {
		defer func() {
			if r := recover(); r != nil {
				u.errorf("generator panic: %v", r)
			}
		}()
		u.verifyFunc()
	}()
	ki.U = u
	ki.Errs = u.errs
	var oks []*Kernel
	for _, k := range u.kernels {
		if k.OK {
			oks = append(oks, k)
		} else if k.Why != "" {
			ki.Why = k.Why
		}
	}
	switch {
	case len(oks) == 1:
		k := oks[0]
		ki.S, ki.D, ki.X, ki.Body, ki.OK = k.SrcElem, k.DstElem, k.X, k.Body, true
		// the kernel must be closed over x
		free := map[string]string{}
		collect([]*Term{k.Body}, free, map[string]bool{}, u.ctx)
		for name := range free {
			if name != k.X.Op {
				ki.OK = false
				ki.Why = "kernel mentions state other than the source sample: " + name
			}
		}
	case len(oks) == 0:
		if ki.Why == "" {
			ki.Why = "no conversion loop was reached"
		}
	default:
		ki.Why = "more than one conversion loop is reachable for this instantiation"
	}
	if len(u.errs) > 0 {
		ki.OK = false
		ki.Why = "generator errors: " + u.errs[0]
	}
	kernelMu.Lock()
	kernelCache[ck] = ki
	kernelMu.Unlock()
	return ki
}

// ---- helpers over bit-vector codes ----------------------------------------------------

func isSignedT(t types.Type) bool { return isIntegerT(t) && !isUnsignedT(t) }

func bvConst(n *big.Int, w int) *Term { return BVLit(n, w) }

func pow2(k int) *big.Int { return new(big.Int).Lsh(big.NewInt(1), uint(k)) }

// code order = amplitude order: signed compare for signed formats, unsigned for unsigned
func leCode(t types.Type, a, b *Term) *Term {
	if isUnsignedT(t) {
		return mk("bvule", SBool, a, b)
	}
	return mk("bvsle", SBool, a, b)
}
func ltCode(t types.Type, a, b *Term) *Term {
	if isUnsignedT(t) {
		return mk("bvult", SBool, a, b)
	}
	return mk("bvslt", SBool, a, b)
}

func (u *Unit) lowestCode(t types.Type) *Term {
	w := u.widthOf(t)
	if isUnsignedT(t) {
		return bvConst(big.NewInt(0), w)
	}
	return bvConst(pow2(w-1), w)
}
func (u *Unit) highestCode(t types.Type) *Term {
	w := u.widthOf(t)
	if isUnsignedT(t) {
		return bvConst(new(big.Int).Sub(pow2(w), big.NewInt(1)), w)
	}
	return bvConst(new(big.Int).Sub(pow2(w-1), big.NewInt(1)), w)
}
func (u *Unit) zeroCode(t types.Type) *Term {
	w := u.widthOf(t)
	if isUnsignedT(t) {
		return bvConst(pow2(w-1), w)
	}
	return bvConst(big.NewInt(0), w)
}

// amp: amplitude of code c of integer format t as a signed bit-vector of width W > width(t)
func (u *Unit) amp(t types.Type, c *Term, W int) *Term {
	w := u.widthOf(t)
	if isUnsignedT(t) {
		z := mk(fmt.Sprintf("(_ zero_extend %d)", W-w), SBV(W), c)
		return mk("bvsub", SBV(W), z, bvConst(pow2(w-1), W))
	}
	return mk(fmt.Sprintf("(_ sign_extend %d)", W-w), SBV(W), c)
}

func lemmaObl(name, fn, inst, prop string, ctx *Ctx, assume []*Term, goal *Term, logic string) *Obligation {
	return &Obligation{Name: fn + "[" + inst + "]/lemma:" + name, Kind: "lemma", Props: []string{prop}, Assume: assume, Goal: goal, Ctx: ctx, Fn: fn, InstName: inst, Logic: logic}
}

// exactLemmaObl: a lemma over extracted kernels decided in the exact scaled-integer
// model: unsatisfiability of the disjunction of the refuting path cases.
func exactLemmaObl(name, fn, inst, prop string, x *Term, width int, signed bool, assume []*Term, goal *Term) []*Obligation {
	ctx := NewCtx()
	res := exactLemma(ctx, x, width, signed, assume, goal)
	o := &Obligation{Name: fn + "[" + inst + "]/lemma:" + name, Kind: "lemma", Props: []string{prop}, Ctx: ctx, Fn: fn, InstName: inst, Logic: "QF_LIA"}
	if res.Err != "" {
		o.Goal = False
		o.Note = "the exact-model translator does not know an operation of the kernel: " + res.Err
		return []*Obligation{o}
	}
	o.Assume = []*Term{res.Range}
	o.Goal = Not(Or(res.Cases...))
	o.Note = fmt.Sprintf("exact model: %d path cases enumerated, %d refuting cases in the query, %d rounding steps", res.PathCases, len(res.Cases), res.Roundings)
	out := []*Obligation{o}
	// vacuity guard of the enumeration: sample codes of the assumed domain (its ends, binade
	// boundaries, an odd code in the middle) must each be admitted by some enumerated path case
	if res.DomLo != nil && len(res.All) > 0 {
		one := big.NewInt(1)
		seen := map[string]bool{}
		var pts []*big.Int
		addPt := func(n *big.Int) {
			if n.Cmp(res.DomLo) >= 0 && n.Cmp(res.DomHi) <= 0 && !seen[n.String()] && exactAdmits(x, width, signed, assume, n) {
				seen[n.String()] = true
				pts = append(pts, n)
			}
		}
		span := new(big.Int).Sub(res.DomHi, res.DomLo)
		addPt(res.DomLo)
		addPt(new(big.Int).Add(res.DomLo, one))
		addPt(res.DomHi)
		addPt(new(big.Int).Sub(res.DomHi, one))
		addPt(new(big.Int).Add(res.DomLo, new(big.Int).Rsh(span, 1)))
		addPt(new(big.Int).Add(res.DomLo, new(big.Int).Add(new(big.Int).Div(span, big.NewInt(3)), one)))
		addPt(big.NewInt(0))
		addPt(big.NewInt(-1))
		addPt(pow2(width - 2))
		addPt(new(big.Int).Sub(pow2(width-2), one))
		addPt(new(big.Int).Add(pow2(width-1), pow2(width-2)))
		for i, c := range pts {
			out = append(out, &Obligation{Name: fmt.Sprintf("%s[%s]/cover:%s:%d", fn, inst, name, i), Kind: "cover", Props: []string{prop}, Ctx: ctx, Fn: fn, InstName: inst, Logic: "QF_LIA",
				Assume: []*Term{res.Range, Eq(res.X, IntBig(c)), Or(res.All...)}, Cover: true,
				Note: "exact model: code " + c.String() + " is admitted by an enumerated path case"})
		}
	}
	return out
}

func kernelFailObl(ki *KernelInfo, prop string) *Obligation {
	return &Obligation{Name: ki.Fn + "[" + ki.Inst.Name + "]/kernel-extracted", Kind: "kernel-local", Props: []string{prop}, Goal: False, Ctx: NewCtx(),
		Fn: ki.Fn, InstName: ki.Inst.Name, Note: ki.Why}
}

var fixedFixed = []string{"SignedAsSigned", "SignedAsUnsigned", "UnsignedAsSigned", "UnsignedAsUnsigned"}

// C05, last clause: floating-to-floating conversion is the plain Go conversion of the sample
// (exact when not narrowing, round-to-nearest-even float32 when narrowing; infinities, NaN and
// out-of-range values included, so nothing is clipped) — the extracted kernel equals it bit for bit.
func (s *Session) lemmasC05() []*Obligation {
	var out []*Obligation
	key := "FloatAsFloat"
	fi, ct := s.prog.Funcs[key], s.cf.Funcs[key]
	if fi == nil || ct == nil {
		return nil
	}
	for _, in := range s.instsFor(fi, ct) {
		ki := s.preciseKernel(key, in)
		if !ki.OK {
			out = append(out, kernelFailObl(ki, "C05"))
			continue
		}
		u := ki.U
		ctx := NewCtx()
		x := ctx.Const("x", fpSort(ki.S))
		out = append(out, lemmaObl("plain-conversion", key, in.Name, "C05", ctx, nil, Eq(ki.apply(x), u.preciseConv(x, ki.S, ki.D)), "QF_FP"))
	}
	return out
}

// C06: order and reference levels.
func (s *Session) lemmasC06() []*Obligation {
	var out []*Obligation
	for _, key := range fixedFixed {
		fi, ct := s.prog.Funcs[key], s.cf.Funcs[key]
		if fi == nil || ct == nil {
			continue
		}
		for _, in := range s.instsFor(fi, ct) {
			ki := s.preciseKernel(key, in)
			if !ki.OK {
				out = append(out, kernelFailObl(ki, "C06"))
				continue
			}
			u := ki.U
			ctx := NewCtx()
			x := ctx.Const("x", SBV(u.widthOf(ki.S)))
			y := ctx.Const("y", SBV(u.widthOf(ki.S)))
			out = append(out, lemmaObl("mono", key, in.Name, "C06", ctx, []*Term{leCode(ki.S, x, y)}, leCode(ki.D, ki.apply(x), ki.apply(y)), "QF_BV"))
			out = append(out, lemmaObl("lowest", key, in.Name, "C06", ctx, nil, Eq(ki.apply(u.lowestCode(ki.S)), u.lowestCode(ki.D)), "QF_BV"))
			out = append(out, lemmaObl("highest", key, in.Name, "C06", ctx, nil, Eq(ki.apply(u.highestCode(ki.S)), u.highestCode(ki.D)), "QF_BV"))
			out = append(out, lemmaObl("zero", key, in.Name, "C06", ctx, nil, Eq(ki.apply(u.zeroCode(ki.S)), u.zeroCode(ki.D)), "QF_BV"))
		}
	}
	return out
}

// C07: one-step accuracy when narrowing, identity at equal depth, lossless widening round trip.
func (s *Session) lemmasC07() []*Obligation {
	var out []*Obligation
	for _, key := range fixedFixed {
		fi, ct := s.prog.Funcs[key], s.cf.Funcs[key]
		if fi == nil || ct == nil {
			continue
		}
		for _, in := range s.instsFor(fi, ct) {
			ki := s.preciseKernel(key, in)
			if !ki.OK {
				out = append(out, kernelFailObl(ki, "C07"))
				continue
			}
			u := ki.U
			wS, wD := u.widthOf(ki.S), u.widthOf(ki.D)
			ctx := NewCtx()
			x := ctx.Const("x", SBV(wS))
			if wS >= wD {
				W := wS + 1
				delta := bvConst(big.NewInt(int64(wS-wD)), W)
				a := u.amp(ki.S, x, W)
				fl := mk("bvashr", SBV(W), a, delta)
				ce := mk("bvneg", SBV(W), mk("bvashr", SBV(W), mk("bvneg", SBV(W), a), delta))
				r := u.amp(ki.D, ki.apply(x), W)
				name := "narrow-one-step"
				if wS == wD {
					name = "same-depth-identity"
				}
				out = append(out, lemmaObl(name, key, in.Name, "C07", ctx, nil, Or(Eq(r, fl), Eq(r, ce)), "QF_BV"))
			} else {
				// widening: composed with the narrowing function back to S's format
				back := pick(isSignedT(ki.D), "Signed", "Unsigned") + "As" + pick(isSignedT(ki.S), "Signed", "Unsigned")
				bfi, bct := s.prog.Funcs[back], s.cf.Funcs[back]
				if bfi == nil || bct == nil {
					continue
				}
				var bin *Inst
				for _, cand := range s.instsFor(bfi, bct) {
					if len(cand.Args) == 2 && types.Identical(cand.Args[0], ki.D) && types.Identical(cand.Args[1], ki.S) {
						bin = cand
					}
				}
				if bin == nil {
					continue
				}
				kb := s.preciseKernel(back, bin)
				if !kb.OK {
					out = append(out, kernelFailObl(kb, "C07"))
					continue
				}
				out = append(out, lemmaObl("widen-roundtrip-via-"+back, key, in.Name, "C07", ctx, nil, Eq(kb.apply(ki.apply(x)), x), "QF_BV"))
			}
		}
	}
	return out
}

// ---- floating point lemmas ------------------------------------------------------------

const f64 = "(_ FloatingPoint 11 53)"

func fp64(n *big.Int) *Term { return fpConst(f64, n.String()) }
func fp64pow(k int) *Term {
	if k >= 0 {
		return fpConst(f64, pow2(k).String())
	}
	return fpConst(f64, "1/"+pow2(-k).String())
}

func widen64(t types.Type, x *Term) *Term {
	if basicOf(t).Kind() == types.Float32 {
		return mk("(_ to_fp 11 53)", f64, rne, x)
	}
	return x
}

func fpOp(op, rm string, a, b *Term) *Term {
	return mk(op, f64, &Term{Op: rm, Sort: "RoundingMode"}, a, b)
}
func fpLe(a, b *Term) *Term { return mk("fp.leq", SBool, a, b) }
func fpLt(a, b *Term) *Term { return mk("fp.lt", SBool, a, b) }

// sbvToFP converts a signed bit-vector to binary64 with the given rounding mode.
func sbvToFP(rm string, v *Term) *Term {
	return mk("(_ to_fp 11 53)", f64, &Term{Op: rm, Sort: "RoundingMode"}, v)
}

var floatFixed = []string{"FloatAsSigned", "FloatAsUnsigned"}
var fixedFloat = []string{"SignedAsFloat", "UnsignedAsFloat"}

// C08: clip, zero, order, accuracy of float -> fixed.
func (s *Session) lemmasC08() []*Obligation {
	var out []*Obligation
	for _, key := range floatFixed {
		fi, ct := s.prog.Funcs[key], s.cf.Funcs[key]
		if fi == nil || ct == nil {
			continue
		}
		for _, in := range s.instsFor(fi, ct) {
			ki := s.preciseKernel(key, in)
			if !ki.OK {
				out = append(out, kernelFailObl(ki, "C08"))
				continue
			}
			u := ki.U
			ctx := NewCtx()
			x := ctx.Const("x", fpSort(ki.S))
			y := ctx.Const("y", fpSort(ki.S))
			xd, yd := widen64(ki.S, x), widen64(ki.S, y)
			notNaN := Not(mk("fp.isNaN", SBool, x))
			one := fp64(big.NewInt(1))
			mone := fp64(big.NewInt(-1))
			kx, ky := ki.apply(x), ki.apply(y)
			add := func(name string, assume []*Term, goal *Term) {
				out = append(out, lemmaObl(name, key, in.Name, "C08", ctx, assume, goal, "QF_FPBV"))
			}
			add("clip-high", []*Term{notNaN, mk("fp.geq", SBool, xd, one)}, Eq(kx, u.highestCode(ki.D)))
			add("clip-low", []*Term{notNaN, fpLe(xd, mone)}, Eq(kx, u.lowestCode(ki.D)))
			add("zero", []*Term{mk("fp.isZero", SBool, x)}, Eq(kx, u.zeroCode(ki.D)))
			_ = ky
			_ = yd
			if std := s.stdFloatToFixed(ki, key, in); std != nil {
				out = append(out, std...)
				continue
			}
			// outside the translator (the uint64 conversion idiom): bit-precise fallbacks
			out = append(out, s.lemmaMonoAbstract(ki, key, in)...)
			// accuracy for -1 < x < 1
			d := u.widthOf(ki.D)
			inside := And(fpLt(mone, xd), fpLt(xd, one))
			pos := mk("fp.gt", SBool, xd, fp64(big.NewInt(0)))
			if d <= 32 {
				W := d + 1
				A := sbvToFP("RNE", u.amp(ki.D, kx, W)) // exact: |amp| <= 2^31
				fsPos := fp64(new(big.Int).Sub(pow2(d-1), big.NewInt(1)))
				fsNeg := fp64(pow2(d - 1))
				for _, c := range []struct {
					n    string
					cond *Term
					fs   *Term
				}{{"accuracy-positive", pos, fsPos}, {"accuracy-nonpositive", Not(pos), fsNeg}} {
					lo := fpOp("fp.mul", "RTN", xd, c.fs)
					hi := fpOp("fp.mul", "RTP", xd, c.fs)
					goal := And(fpLe(fpOp("fp.sub", "RNE", A, one), lo), fpLe(hi, fpOp("fp.add", "RNE", A, one)))
					add(c.n, []*Term{notNaN, inside, c.cond}, goal)
				}
			} else {
				// depth 64: P = x * 2^63 is exact; full scale 2^63-1 (positive) or 2^63 (non-positive).
				// positive: P-1 < amp <= P (then |amp - x*(2^63-1)| < 1 by lemma/arith/fullscale64);
				// non-positive: P <= amp < P+1.
				W := 65
				amp := u.amp(ki.D, kx, W)
				P := fpOp("fp.mul", "RNE", xd, fp64pow(63))
				alo, ahi := sbvToFP("RTN", amp), sbvToFP("RTP", amp)
				big53 := fp64pow(53)
				absP := mk("fp.abs", f64, P)
				exactCase := And(mk("fp.geq", SBool, absP, big53), mk("fp.eq", SBool, alo, P), mk("fp.eq", SBool, ahi, P))
				posSmall := And(fpLt(absP, big53), fpLt(fpOp("fp.sub", "RNE", P, one), alo), fpLe(ahi, P))
				negSmall := And(fpLt(absP, big53), fpLe(P, alo), fpLt(ahi, fpOp("fp.add", "RNE", P, one)))
				add("accuracy-positive", []*Term{notNaN, inside, pos}, Or(exactCase, posSmall))
				add("accuracy-nonpositive", []*Term{notNaN, inside, Not(pos)}, Or(exactCase, negSmall))
			}
		}
	}
	// the real-arithmetic glue for depth 64, positive inputs
	{
		ctx := NewCtx()
		p, k, xr := ctx.Const("P", SReal), ctx.Const("k", SReal), ctx.Const("x", SReal)
		exact := mk("-", SReal, p, xr) // x*(2^63-1) = P - x with P = x*2^63
		diff := mk("-", SReal, k, exact)
		goal := And(Lt(mk("-", SReal, RealLit("1.0")), diff), Lt(diff, RealLit("1.0")))
		out = append(out, &Obligation{Name: "lemma/arith/fullscale64", Kind: "lemma", Props: []string{"C08"}, Ctx: ctx, Fn: "lemma/arith",
			Assume: []*Term{Lt(mk("-", SReal, p, RealLit("1.0")), k), Le(k, p), Lt(RealLit("0.0"), xr), Lt(xr, RealLit("1.0"))}, Goal: goal, Logic: "QF_LRA"})
	}
	return out
}

// C09: fixed -> float.
func (s *Session) lemmasC09(tier string) ([]*Obligation, []interface{}) {
	var out []*Obligation
	var bounded []interface{}
	for _, key := range fixedFloat {
		fi, ct := s.prog.Funcs[key], s.cf.Funcs[key]
		if fi == nil || ct == nil {
			continue
		}
		for _, in := range s.instsFor(fi, ct) {
			ki := s.preciseKernel(key, in)
			if !ki.OK {
				out = append(out, kernelFailObl(ki, "C09"))
				continue
			}
			u := ki.U
			ctx := NewCtx()
			d := u.widthOf(ki.S)
			x := ctx.Const("x", SBV(d))
			y := ctx.Const("y", SBV(d))
			kx, ky := widen64(ki.D, ki.apply(x)), widen64(ki.D, ki.apply(y))
			one := fp64(big.NewInt(1))
			mone := fp64(big.NewInt(-1))
			zero := fp64(big.NewInt(0))
			add := func(name string, assume []*Term, goal *Term) {
				out = append(out, lemmaObl(name, key, in.Name, "C09", ctx, assume, goal, "QF_FPBV"))
			}
			if std := s.stdFixedToFloat(ki, key, in); std != nil {
				out = append(out, std...)
			} else {
				out = append(out, &Obligation{Name: key + "[" + in.Name + "]/lemma:standard-model-translation", Kind: "lemma", Props: []string{"C09"}, Goal: False, Ctx: NewCtx(),
					Fn: key, InstName: in.Name, Note: "the kernel uses an operation the standard-model translator does not know"})
			}
			_, _, _, _ = ky, zero, one, mone
			W := d + 1
			amp := u.amp(ki.S, x, W)
			posAmp := mk("bvsgt", SBool, amp, BVLit64(0, W))
			// injectivity and round trip through float64 for depth <= 32
			isF64 := basicOf(ki.D).Kind() == types.Float64
			back := pick(isSignedT(ki.S), "FloatAsSigned", "FloatAsUnsigned")
			bfi, bct := s.prog.Funcs[back], s.cf.Funcs[back]
			var kb *KernelInfo
			if bfi != nil && bct != nil {
				for _, cand := range s.instsFor(bfi, bct) {
					if len(cand.Args) == 2 && types.Identical(cand.Args[0], ki.D) && types.Identical(cand.Args[1], ki.S) {
						kb = s.preciseKernel(back, cand)
					}
				}
			}
			if isF64 && d <= 32 {
				if isUnsignedT(ki.S) {
					// codes 0 and 1 are a recorded finding of UnsignedAsFloat (known_findings.txt); that
					// one pair is its own obligation, so that any other loss of injectivity is still reported
					zc := bvConst(big.NewInt(0), d)
					add("injective", []*Term{ltCode(ki.S, x, y), Not(Eq(x, zc))}, fpLt(kx, ky))
					add("injective-codes-0-1", []*Term{Eq(x, zc), Eq(y, bvConst(big.NewInt(1), d))}, fpLt(kx, ky))
				} else {
					add("injective", []*Term{ltCode(ki.S, x, y)}, fpLt(kx, ky))
				}
				if kb != nil && kb.OK {
					// split by sign of the amplitude (the positive half is the hard one)
					rt := Eq(kb.apply(ki.apply(x)), x)
					if isUnsignedT(ki.S) {
						// UnsignedAsFloat divides every non-zero code by 2^(d-1)-1, also the negative
						// amplitudes: the lowest codes come back one too small (recorded finding: code 1 at
						// 8 and 16 bit, codes 1..256 at 32 bit). Those codes are their own obligation; all
						// other non-positive codes are proved in the exact model (the divisor is not a
						// power of two, so this half is as hard as the positive one).
						L := int64(1)
						if d > 16 {
							L = 256
						}
						low := And(mk("bvuge", SBool, x, BVLit64(1, d)), mk("bvule", SBool, x, BVLit64(L, d)))
						add("roundtrip-low-codes", []*Term{low}, rt)
						out = append(out, exactLemmaObl("roundtrip-nonpositive-exact", key, in.Name, "C09", x, d, false, []*Term{Not(posAmp), Not(low)}, rt)...)
					} else {
						add("roundtrip-nonpositive", []*Term{Not(posAmp)}, rt)
					}
					if d <= 8 {
						add("roundtrip-positive", []*Term{posAmp}, rt)
					}
					// depth 32, positive amplitudes: beyond all three solvers (every binade times
					// out or takes > 10 s); decided by the bounded stand-in below, not claimed as proved
				} else if kb != nil {
					out = append(out, kernelFailObl(kb, "C09"))
				}
			}
			if !isF64 && d <= 8 && kb != nil && kb.OK {
				r := kb.apply(ki.apply(x))
				da := mk("bvsub", SBV(W), u.amp(ki.S, r, W), amp)
				add("roundtrip-float32-within-one", nil, And(mk("bvsle", SBool, BVLit64(-1, W), da), mk("bvsle", SBool, da, BVLit64(1, W))))
			}
			// exact scaled-integer model (exactfp.go): the same statements over the same extracted
			// kernels, for all codes of 16- and 32-bit sources (and again for 8 bit, where the
			// FloatingPoint-theory lemma above decides it too)
			if kb != nil && kb.OK {
				var assume []*Term
				var goal *Term
				name := ""
				switch {
				case isF64 && d <= 32:
					name, assume, goal = "roundtrip-positive-exact", []*Term{posAmp}, Eq(kb.apply(ki.apply(x)), x)
				case !isF64 && d <= 16:
					r := kb.apply(ki.apply(x))
					da := mk("bvsub", SBV(W), u.amp(ki.S, r, W), amp)
					name, goal = "roundtrip-float32-within-one-exact", And(mk("bvsle", SBool, BVLit64(-1, W), da), mk("bvsle", SBool, da, BVLit64(1, W)))
				}
				if name != "" {
					out = append(out, exactLemmaObl(name, key, in.Name, "C09", x, d, isSignedT(ki.S), assume, goal)...)
				}
			}
		}
	}
	// bounded stand-in: exhaustive native execution over all positive 32-bit amplitudes
	res, err := runBounded("roundtrip", "signed32", "unsigned32", "signed16", "unsigned16")
	if err != nil {
		out = append(out, &Obligation{Name: "bounded/roundtrip32", Kind: "bounded", Props: []string{"C09"}, Goal: False, Ctx: NewCtx(), Fn: "bounded",
			Bounded: true, Res: &SolveResult{Status: "error", Backend: "native-exhaustive", Raw: err.Error()}, Note: err.Error()})
	}
	for _, r := range res {
		bounded = append(bounded, r)
		st := "unsat"
		if r.Failures > 0 {
			st = "sat"
		}
		model := map[string]string{}
		for i, e := range r.Examples {
			model[fmt.Sprintf("example%d", i)] = e
		}
		out = append(out, &Obligation{Name: r.Check, Kind: "bounded", Props: []string{"C09"}, Goal: False, Ctx: NewCtx(), Fn: "bounded", Bounded: true,
			Res: &SolveResult{Status: st, Backend: "native-exhaustive", TimeS: r.WallS, Model: model, Raw: fmt.Sprintf("%d failures in %d evaluations (%s)", r.Failures, r.Evaluated, r.Domain)},
			Note: fmt.Sprintf("%d of %d codes fail, e.g. %v", r.Failures, r.Evaluated, r.Examples)})
	}
	return out, bounded
}

// abstractMul replaces every (fp.mul RNE <e> <c>) / (fp.mul RNE <c> <e>) whose
// factor c does not mention x by an uninterpreted function M_k(e). Used only
// for the order lemma of C08, where the multiplier is beyond the solvers; the
// facts assumed about M_k (monotone, sign preserving, bounded by c on (-1,1))
// are properties of correctly rounded multiplication by a positive constant
// and are discharged as obligations over the real fp.mul (lemma:mul-monotone, lemma:mul-bounds).
func abstractMul(ctx *Ctx, t *Term, xname string) (*Term, map[string]*Term) {
	consts := map[string]*Term{} // function name -> constant factor
	mentions := func(t *Term) bool {
		found := false
		var w func(t *Term)
		w = func(t *Term) {
			if len(t.Args) == 0 && t.Op == xname {
				found = true
			}
			for _, a := range t.Args {
				w(a)
			}
		}
		w(t)
		return found
	}
	var rec func(t *Term) *Term
	rec = func(t *Term) *Term {
		if len(t.Args) == 0 {
			return t
		}
		args := make([]*Term, len(t.Args))
		for i, a := range t.Args {
			args[i] = rec(a)
		}
		if t.Op == "fp.mul" && len(args) == 3 && args[0].Op == "RNE" {
			e, c := args[1], args[2]
			if mentions(c) && !mentions(e) {
				e, c = c, e
			}
			if mentions(e) && !mentions(c) {
				name := ""
				for n, k := range consts {
					if k.String() == c.String() {
						name = n
					}
				}
				if name == "" {
					name = fmt.Sprintf("M%d", len(consts)+1)
					consts[name] = c
				}
				return ctx.App(name, t.Sort, e)
			}
		}
		n := *t
		n.Args = args
		return &n
	}
	return rec(t), consts
}

// lemmaMonoAbstract: order preservation of a float->fixed kernel modulo
// monotone rounding of the constant multiplications.
func (s *Session) lemmaMonoAbstract(ki *KernelInfo, key string, in *Inst) []*Obligation {
	u := ki.U
	ctx := NewCtx()
	x := ctx.Const("x", fpSort(ki.S))
	y := ctx.Const("y", fpSort(ki.S))
	xd, yd := widen64(ki.S, x), widen64(ki.S, y)
	body, consts := abstractMul(ctx, ki.Body, ki.X.Op)
	app := func(arg *Term) *Term { return Subst(body, map[string]*Term{ki.X.String(): arg}) }
	assume := []*Term{Not(mk("fp.isNaN", SBool, x)), Not(mk("fp.isNaN", SBool, y)), fpLe(xd, yd)}
	zero := fp64(big.NewInt(0))
	one := fp64(big.NewInt(1))
	mone := fp64(big.NewInt(-1))
	for name, c := range consts {
		mx, my := ctx.App(name, f64, xd), ctx.App(name, f64, yd)
		// the factor is a positive finite constant (checked, not assumed)
		assume = append(assume, Imp(fpLe(xd, yd), fpLe(mx, my)))
		for _, p := range []struct{ v, m *Term }{{xd, mx}, {yd, my}} {
			assume = append(assume, Not(mk("fp.isNaN", SBool, p.m)))
			assume = append(assume, Imp(mk("fp.gt", SBool, p.v, zero), mk("fp.geq", SBool, p.m, zero)))
			assume = append(assume, Imp(fpLe(p.v, zero), fpLe(p.m, zero)))
			assume = append(assume, Imp(And(fpLt(mone, p.v), fpLt(p.v, one)), And(fpLt(mk("fp.neg", f64, c), p.m), fpLt(p.m, c))))
		}
		assume = append(assume, And(mk("fp.gt", SBool, c, zero), Not(mk("fp.isInfinite", SBool, c))))
	}
	o := lemmaObl("mono", key, in.Name, "C08", ctx, assume, leCode(ki.D, app(x), app(y)), "ALL")
	_ = u
	out := []*Obligation{o}
	// the facts assumed about M_k above are themselves obligations over the real fp.mul by the
	// kernel's constant, for all non-NaN binary64 arguments (assume-guarantee: nothing is assumed)
	var names []string
	for name := range consts {
		names = append(names, name)
	}
	sort.Strings(names)
	for i, name := range names {
		c := consts[name]
		fctx := NewCtx()
		a := fctx.Const("a", f64)
		b := fctx.Const("b", f64)
		ma, mb := fpOp("fp.mul", "RNE", a, c), fpOp("fp.mul", "RNE", b, c)
		nn := []*Term{Not(mk("fp.isNaN", SBool, a)), Not(mk("fp.isNaN", SBool, b))}
		out = append(out, lemmaObl(fmt.Sprintf("mul-monotone:%d", i+1), key, in.Name, "C08", fctx, append(append([]*Term{}, nn...), fpLe(a, b)), fpLe(ma, mb), "QF_FP"))
		facts := And(Not(mk("fp.isNaN", SBool, ma)),
			Imp(mk("fp.gt", SBool, a, zero), mk("fp.geq", SBool, ma, zero)),
			Imp(fpLe(a, zero), fpLe(ma, zero)),
			Imp(And(fpLt(mone, a), fpLt(a, one)), And(fpLt(mk("fp.neg", f64, c), ma), fpLt(ma, c))),
			mk("fp.gt", SBool, c, zero), Not(mk("fp.isInfinite", SBool, c)))
		out = append(out, lemmaObl(fmt.Sprintf("mul-bounds:%d", i+1), key, in.Name, "C08", fctx, nn[:1], facts, "QF_FP"))
	}
	return out
}

// ---- standard-model lemmas -------------------------------------------------------------

func realLitInt(n *big.Int) *Term { return realOfRat(new(big.Rat).SetInt(n)) }

// stdFixedToFloat builds the standard-model lemmas of C09 for one kernel.
// Returns nil if the kernel is outside the translator's reach.
func (s *Session) stdFixedToFloat(ki *KernelInfo, key string, in *Inst) []*Obligation {
	u := ki.U
	d := u.widthOf(ki.S)
	signed := isSignedT(ki.S)
	ctx := NewCtx()
	mkK := func(name string) (*stdTr, *Term, *Term, *Term) {
		tr := newStdTr(ctx)
		X := ctx.Const(name, SInt)
		tr.varBV[ki.X.Op] = X
		tr.sgn[ki.X.Op] = signed
		k := tr.fp(ki.Body)
		var rng *Term
		if signed {
			rng = And(Le(IntBig(new(big.Int).Neg(pow2(d-1))), X), Lt(X, IntBig(pow2(d-1))))
		} else {
			rng = And(Le(IntLit(0), X), Lt(X, IntBig(pow2(d))))
		}
		return tr, X, k, rng
	}
	trX, X, kx, rngX := mkK("X")
	if trX.err != "" {
		return nil
	}
	// second copy for monotonicity: substitute X by Y in the translated term and share rnd arguments
	Y := ctx.Const("Y", SInt)
	sub := map[string]*Term{X.String(): Y}
	ky := Subst(kx, sub)
	var rngY *Term
	rngY = Subst(rngX, sub)
	for p, args := range trX.rnd {
		for _, a := range append([]*Term{}, args...) {
			trX.rnd[p] = append(trX.rnd[p], Subst(a, sub))
		}
	}
	amp := func(v *Term) *Term {
		if signed {
			return v
		}
		return Sub(v, IntBig(pow2(d-1)))
	}
	p := precOfSort(fpSort(ki.D))
	hints := map[int][]*Term{}
	anchors := []*Term{RealLit("1.0"), mk("-", SReal, RealLit("1.0")), RealLit("0.0"),
		realLitInt(pow2(d - 1)), realLitInt(new(big.Int).Neg(pow2(d - 1))), realLitInt(pow2(d)), realLitInt(new(big.Int).Sub(pow2(d), big.NewInt(1))),
		realLitInt(new(big.Int).Sub(pow2(d-1), big.NewInt(1)))}
	for q := range trX.rnd {
		hints[q] = anchors
	}
	ax := trX.axioms(hints)
	one, mone, zero := RealLit("1.0"), mk("-", SReal, RealLit("1.0")), RealLit("0.0")
	var out []*Obligation
	add := func(name string, assume []*Term, goal *Term) {
		o := lemmaObl(name, key, in.Name, "C09", ctx, append(append([]*Term{}, ax...), assume...), goal, "ALL")
		o.Note = "standard model of IEEE rounding"
		out = append(out, o)
	}
	add("range", []*Term{rngX}, And(Le(mone, kx), Le(kx, one)))
	at := func(c *big.Int) *Term { return Subst(kx, map[string]*Term{X.String(): IntBig(c)}) }
	var lowest, zeroC, highest *big.Int
	if signed {
		lowest, zeroC, highest = new(big.Int).Neg(pow2(d-1)), big.NewInt(0), new(big.Int).Sub(pow2(d-1), big.NewInt(1))
	} else {
		lowest, zeroC, highest = big.NewInt(0), pow2(d-1), new(big.Int).Sub(pow2(d), big.NewInt(1))
	}
	// reference levels: instantiate the axioms at the constant arguments
	lvl := func(name string, c *big.Int, want *Term) {
		tr2 := newStdTr(ctx)
		tr2.varBV[ki.X.Op] = IntBig(c)
		tr2.sgn[ki.X.Op] = signed
		kc := tr2.fp(ki.Body)
		h := map[int][]*Term{}
		for q := range tr2.rnd {
			h[q] = []*Term{one, mone, zero}
		}
		o := lemmaObl(name, key, in.Name, "C09", ctx, tr2.axioms(h), Eq(kc, want), "ALL")
		o.Note = "standard model of IEEE rounding"
		out = append(out, o)
		_ = at
	}
	lvl("lowest", lowest, mone)
	lvl("zero", zeroC, zero)
	lvl("highest", highest, one)
	add("mono", []*Term{rngX, rngY, Le(X, Y)}, Le(kx, ky))
	// accuracy: |K(x) - amp/FS| <= 2^-(d-1) + eps (eps = 2^-50 / 2^-22: float rounding at full scale)
	a := mk("to_real", SReal, amp(X))
	fsPos := realLitInt(new(big.Int).Sub(pow2(d-1), big.NewInt(1)))
	fsNeg := realLitInt(pow2(d - 1))
	ref := Ite(Gt(amp(X), IntLit(0)), mk("/", SReal, a, fsPos), mk("/", SReal, a, fsNeg))
	epsExp := 49
	if p == 24 {
		epsExp = 21
	}
	tol := mk("+", SReal, realOfRat(new(big.Rat).SetFrac(big.NewInt(1), pow2(d-1))), realOfRat(new(big.Rat).SetFrac(big.NewInt(1), pow2(epsExp))))
	diff := mk("-", SReal, kx, ref)
	add("accuracy", []*Term{rngX}, And(Le(mk("-", SReal, tol), diff), Le(diff, tol)))
	return out
}

// stdFloatToFixed: order and accuracy lemmas of C08 in the standard model.
func (s *Session) stdFloatToFixed(ki *KernelInfo, key string, in *Inst) []*Obligation {
	u := ki.U
	d := u.widthOf(ki.D)
	signed := isSignedT(ki.D)
	ctx := NewCtx()
	tr := newStdTr(ctx)
	x := ctx.Const("x", SReal)
	tr.varFP[ki.X.Op] = x
	code := tr.bvInt(ki.Body, signed)
	if tr.err != "" {
		return nil
	}
	y := ctx.Const("y", SReal)
	sub := map[string]*Term{x.String(): y}
	codeY := Subst(code, sub)
	for p, args := range tr.rnd {
		for _, a := range append([]*Term{}, args...) {
			tr.rnd[p] = append(tr.rnd[p], Subst(a, sub))
		}
	}
	// float32 inputs are float64 values too; the input is any finite float
	hints := map[int][]*Term{}
	for q := range tr.rnd {
		hints[q] = []*Term{RealLit("0.0")}
	}
	ax := tr.axioms(hints)
	var out []*Obligation
	add := func(name string, assume []*Term, goal *Term) {
		o := lemmaObl(name, key, in.Name, "C08", ctx, append(append([]*Term{}, ax...), assume...), goal, "ALL")
		o.Note = "standard model of IEEE rounding (finite inputs; infinities are covered by clip-high / clip-low)"
		out = append(out, o)
	}
	add("mono", []*Term{Le(x, y)}, Le(code, codeY))
	amp := code
	if !signed {
		amp = Sub(code, IntBig(pow2(d-1)))
	}
	ar := mk("to_real", SReal, amp)
	one, mone, zero := RealLit("1.0"), mk("-", SReal, RealLit("1.0")), RealLit("0.0")
	inside := And(Lt(mone, x), Lt(x, one))
	fsPos := realLitInt(new(big.Int).Sub(pow2(d-1), big.NewInt(1)))
	fsNeg := realLitInt(pow2(d - 1))
	// one step plus the float rounding of the product at full scale (2^-50 relative)
	tolOf := func(fs *Term) *Term {
		return mk("+", SReal, one, mk("/", SReal, fs, realLitInt(pow2(50))))
	}
	dp := mk("-", SReal, ar, mk("*", SReal, x, fsPos))
	add("accuracy-positive", []*Term{inside, Gt(x, zero)}, And(Le(mk("-", SReal, tolOf(fsPos)), dp), Le(dp, tolOf(fsPos))))
	dn := mk("-", SReal, ar, mk("*", SReal, x, fsNeg))
	add("accuracy-nonpositive", []*Term{inside, Le(x, zero)}, And(Le(mk("-", SReal, tolOf(fsNeg)), dn), Le(dn, tolOf(fsNeg))))
	return out
}

// thoroughBitPrecise: in the thorough tier the standard-model lemmas of C08 / C09 are
// additionally attempted bit-precisely (IEEE-754 FloatingPoint theory) with the long budget.
func (s *Session) thoroughBitPrecise(prop string, keys []string, lemmas []string) []*Obligation {
	var out []*Obligation
	for _, key := range keys {
		fi, ct := s.prog.Funcs[key], s.cf.Funcs[key]
		if fi == nil || ct == nil {
			continue
		}
		for _, in := range s.instsFor(fi, ct) {
			ki := s.preciseKernel(key, in)
			if !ki.OK {
				continue
			}
			ctx := NewCtx()
			var x, y *Term
			if isFloatT(ki.S) {
				x, y = ctx.Const("x", fpSort(ki.S)), ctx.Const("y", fpSort(ki.S))
			} else {
				x, y = ctx.Const("x", SBV(ki.U.widthOf(ki.S))), ctx.Const("y", SBV(ki.U.widthOf(ki.S)))
			}
			for _, l := range lemmas {
				assume, goal := bitPreciseLemma(l, ki, x, y)
				if goal == nil {
					continue
				}
				o := lemmaObl("bit-precise-"+l, key, in.Name, prop, ctx, assume, goal, "QF_FPBV")
				o.Note = "thorough tier: bit-precise confirmation of the standard-model lemma"
				o.Soft = true
				out = append(out, o)
			}
		}
	}
	return out
}

// conversionRoundTripLemmas (C01): for element-type pairs (S, D), a value of S that is
// representable in D converts to D and back unchanged under the modelled Go conversion
// semantics. Together with Write/Read's "plain-conversion" clause this is the value
// clause of C01 ("samples are read back unchanged for values representable in both").
func (s *Session) conversionRoundTripLemmas() []*Obligation {
	var out []*Obligation
	u := &Unit{prog: s.prog, ctx: NewCtx(), mode: "precise"}
	for _, ks := range basicNumeric {
		for _, kd := range basicNumeric {
			S, D := types.Type(types.Typ[ks]), types.Type(types.Typ[kd])
			if types.Identical(S, D) {
				continue
			}
			ctx := NewCtx()
			wS, wD := u.widthOf(S), u.widthOf(D)
			var v *Term
			var repr *Term
			switch {
			case isIntegerT(S) && isIntegerT(D):
				v = ctx.Const("v", SBV(wS))
				// the mathematical value of v lies in D's range (compared in 66 bits)
				W := 66
				ext := func(t types.Type, x *Term, w int) *Term {
					if isUnsignedT(t) {
						return mk(fmt.Sprintf("(_ zero_extend %d)", W-w), SBV(W), x)
					}
					return mk(fmt.Sprintf("(_ sign_extend %d)", W-w), SBV(W), x)
				}
				val := ext(S, v, wS)
				var lo, hi *big.Int
				if isUnsignedT(D) {
					lo, hi = big.NewInt(0), new(big.Int).Sub(pow2(wD), big.NewInt(1))
				} else {
					lo, hi = new(big.Int).Neg(pow2(wD-1)), new(big.Int).Sub(pow2(wD-1), big.NewInt(1))
				}
				repr = And(mk("bvsle", SBool, BVLit(lo, W), val), mk("bvsle", SBool, val, BVLit(hi, W)))
			case isIntegerT(S) && isFloatT(D):
				v = ctx.Const("v", SBV(wS))
				mant := 53
				if basicOf(D).Kind() == types.Float32 {
					mant = 24
				}
				W := 66
				var val *Term
				if isUnsignedT(S) {
					val = mk(fmt.Sprintf("(_ zero_extend %d)", W-wS), SBV(W), v)
				} else {
					val = mk(fmt.Sprintf("(_ sign_extend %d)", W-wS), SBV(W), v)
				}
				repr = And(mk("bvsle", SBool, BVLit(new(big.Int).Neg(pow2(mant)), W), val), mk("bvsle", SBool, val, BVLit(pow2(mant), W)))
			case isFloatT(S) && isFloatT(D) && wS < wD:
				v = ctx.Const("v", fpSort(S))
				repr = Not(mk("fp.isNaN", SBool, v))
			default:
				continue
			}
			there := u.preciseConv(v, S, D)
			back := u.preciseConv(there, D, S)
			out = append(out, &Obligation{Name: fmt.Sprintf("lemma/conversion/roundtrip[%s,%s]", typeName(S), typeName(D)), Kind: "lemma", Props: []string{"C01"},
				Ctx: ctx, Fn: "lemma/conversion", InstName: typeName(S) + "," + typeName(D), Assume: []*Term{repr}, Goal: Eq(back, v), Logic: "QF_FPBV"})
		}
	}
	return out
}
