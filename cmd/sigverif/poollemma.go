package main

import (
	"go/ast"
	"go/types"
)

// Pool protocol lemma (C10 second sentence, C11): over the abstract state
// (items = pooled headers, out = checked-out headers, a window per header)
// the three transitions licensed by the contracts of Get and Put preserve
// "the windows of items ∪ out are pairwise disjoint":
//   get-hit : Get's postcondition `old(inPool(result))`, `!inPool(result)`: it moves from items to out
//   get-miss: Get's postcondition `fresh(result) && freshStorage(result)`: a new header whose window
//             lies above every existing window joins out
//   put     : Put's precondition (x is a checked-out buffer or a frame-0 slice of one: same window)
//             and postcondition `inPool(x)`, window unchanged: the owner leaves out, x joins items
// By induction over the history no two buffers that are checked out at the same time share storage.
func poolLemmaObligations(props []string) []*Obligation {
	var out []*Obligation
	mkCtx := func() (*Ctx, *Term, *Term, *Term, *Term, func(items, outs *Term) *Term) {
		ctx := NewCtx()
		setS := SArr(SInt, SBool)
		items := ctx.Const("items", setS)
		outs := ctx.Const("out", setS)
		ptr := ctx.Const("winPtr", arrII)
		cap_ := ctx.Const("winCap", arrII)
		inv := func(it, ou *Term) *Term {
			a, b := bv("a?"), bv("b?")
			live := func(x *Term) *Term { return Or(Select(it, x), Select(ou, x)) }
			disj := Or(Le(Add(Select(ptr, a), Select(cap_, a)), Select(ptr, b)), Le(Add(Select(ptr, b), Select(cap_, b)), Select(ptr, a)))
			return And(
				Forall([]*Term{a, b}, Imp(And(live(a), live(b), Ne(a, b)), disj)),
				Forall([]*Term{a}, Not(And(Select(it, a), Select(ou, a)))))
		}
		return ctx, items, outs, ptr, cap_, inv
	}
	{ // get-hit
		ctx, items, outs, _, _, inv := mkCtx()
		it := ctx.Const("it", SInt)
		items2 := Store(items, it, False)
		outs2 := Store(outs, it, True)
		out = append(out, &Obligation{Name: "lemma/pool/get-hit-preserves-disjointness", Kind: "lemma", Props: props, Ctx: ctx, Fn: "lemma/pool",
			Assume: []*Term{inv(items, outs), Select(items, it)}, Goal: inv(items2, outs2)})
	}
	{ // get-miss
		ctx, items, outs, ptr, cap_, inv := mkCtx()
		n := ctx.Const("n", SInt)
		brk := ctx.Const("brk", SInt)
		a := bv("a?")
		below := Forall([]*Term{a}, Imp(Or(Select(items, a), Select(outs, a)), And(Le(Add(Select(ptr, a), Select(cap_, a)), brk), Ne(a, n))))
		fresh := And(Ge(Select(ptr, n), brk), Ge(Select(cap_, n), IntLit(0)), Not(Select(items, n)), Not(Select(outs, n)))
		out = append(out, &Obligation{Name: "lemma/pool/get-miss-preserves-disjointness", Kind: "lemma", Props: props, Ctx: ctx, Fn: "lemma/pool",
			Assume: []*Term{inv(items, outs), below, fresh}, Goal: inv(items, Store(outs, n, True))})
	}
	{ // put
		ctx, items, outs, ptr, cap_, inv := mkCtx()
		x := ctx.Const("x", SInt)
		owner := ctx.Const("owner", SInt)
		pre := And(Select(outs, owner), Eq(Select(ptr, x), Select(ptr, owner)), Eq(Select(cap_, x), Select(cap_, owner)),
			Or(Eq(x, owner), And(Not(Select(items, x)), Not(Select(outs, x)))))
		outs2 := Store(outs, owner, False)
		items2 := Store(items, x, True)
		out = append(out, &Obligation{Name: "lemma/pool/put-preserves-disjointness", Kind: "lemma", Props: props, Ctx: ctx, Fn: "lemma/pool",
			Assume: []*Term{inv(items, outs), pre}, Goal: inv(items2, outs2)})
	}
	return out
}

// immutableFieldObligation: no function assigns a field of PoolAllocator
// (the allocator value is shared between goroutines by value and by pointer).
func immutableFieldObligation(s *Session, prop string) *Obligation {
	note := ""
	goal := True
	for _, fi := range s.prog.Funcs {
		if fi.Decl.Body == nil {
			continue
		}
		ast.Inspect(fi.Decl.Body, func(n ast.Node) bool {
			var lhs []ast.Expr
			switch st := n.(type) {
			case *ast.AssignStmt:
				lhs = st.Lhs
			case *ast.IncDecStmt:
				lhs = []ast.Expr{st.X}
			}
			for _, l := range lhs {
				se, ok := ast.Unparen(l).(*ast.SelectorExpr)
				if !ok {
					continue
				}
				sel, ok := s.prog.Info.Selections[se]
				if !ok || sel.Kind() != types.FieldVal {
					continue
				}
				// any field reached through a PoolAllocator value
				t := s.prog.Info.TypeOf(se.X)
				for t != nil {
					if namedName(t) == "PoolAllocator" {
						goal = False
						note = "assignment to a field of PoolAllocator in " + fi.Key
						break
					}
					inner, ok := ast.Unparen(se.X).(*ast.SelectorExpr)
					if !ok {
						break
					}
					se = inner
					t = s.prog.Info.TypeOf(se.X)
				}
			}
			return true
		})
	}
	return &Obligation{Name: "package/pool-allocator-fields-immutable", Kind: "structure", Props: []string{prop}, Goal: goal, Ctx: NewCtx(), Fn: "package", Note: note}
}
