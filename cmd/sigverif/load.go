package main

import (
	"fmt"
	"go/ast"
	"go/token"
	"go/types"
	"os"
	"sort"
	"strings"

	"golang.org/x/tools/go/packages"
)

type FuncInfo struct {
	Key    string // "Buffer.Append", "Write", "C.Sample", "channels.BufferIndex", "BitDepth.MaxSignedValue"
	Decl   *ast.FuncDecl
	Obj    *types.Func
	Sig    *types.Signature
	TParam []*types.TypeParam // receiver type params followed by function type params
	File   string
}

type Program struct {
	Pkg   *packages.Package
	Fset  *token.FileSet
	Info  *types.Info
	Funcs map[string]*FuncInfo
	ByObj map[*types.Func]*FuncInfo
	Sizes types.Sizes
	// package-level vars (must be empty for no-globals)
	Globals []string
	tableCands []*ast.Ident // package-level maps: globals unless they are read-only constant tables
	// source text of the contract file
	ContractText string
	ContractFile string
}

var repoDir = "/repo"

func loadProgram() (*Program, error) {
	cfg := &packages.Config{
		Mode: packages.NeedName | packages.NeedFiles | packages.NeedSyntax | packages.NeedTypes |
			packages.NeedTypesInfo | packages.NeedTypesSizes | packages.NeedImports | packages.NeedDeps,
		Dir:        repoDir,
		BuildFlags: []string{"-tags=verif"},
		Env:        append(os.Environ(), "GOFLAGS=-mod=mod", "GOPROXY=off", "GOSUMDB=off", "GOTOOLCHAIN=local"),
	}
	pkgs, err := packages.Load(cfg, ".")
	if err != nil {
		return nil, err
	}
	if len(pkgs) != 1 {
		return nil, fmt.Errorf("expected 1 package, got %d", len(pkgs))
	}
	pkg := pkgs[0]
	if len(pkg.Errors) > 0 {
		return nil, fmt.Errorf("package errors: %v", pkg.Errors)
	}
	p := &Program{Pkg: pkg, Fset: pkg.Fset, Info: pkg.TypesInfo, Funcs: map[string]*FuncInfo{}, ByObj: map[*types.Func]*FuncInfo{}, Sizes: pkg.TypesSizes}
	for _, f := range pkg.Syntax {
		fname := pkg.Fset.Position(f.Pos()).Filename
		if strings.HasSuffix(fname, "verif_contracts.go") {
			b, err := os.ReadFile(fname)
			if err != nil {
				return nil, err
			}
			p.ContractText = string(b)
			p.ContractFile = fname
		}
		for _, d := range f.Decls {
			switch d := d.(type) {
			case *ast.FuncDecl:
				obj := pkg.TypesInfo.Defs[d.Name].(*types.Func)
				sig := obj.Type().(*types.Signature)
				fi := &FuncInfo{Decl: d, Obj: obj, Sig: sig, File: fname}
				key := d.Name.Name
				if sig.Recv() != nil {
					rt := sig.Recv().Type()
					if pt, ok := rt.(*types.Pointer); ok {
						rt = pt.Elem()
					}
					nt := rt.(*types.Named)
					key = nt.Obj().Name() + "." + key
					for i := 0; i < sig.RecvTypeParams().Len(); i++ {
						fi.TParam = append(fi.TParam, sig.RecvTypeParams().At(i))
					}
				}
				for i := 0; i < sig.TypeParams().Len(); i++ {
					fi.TParam = append(fi.TParam, sig.TypeParams().At(i))
				}
				fi.Key = key
				p.Funcs[key] = fi
				p.ByObj[obj] = fi
			case *ast.GenDecl:
				if d.Tok == token.VAR {
					for _, s := range d.Specs {
						for _, n := range s.(*ast.ValueSpec).Names {
							// a read-only constant lookup table (consttable.go) is not shared mutable state
							if v, ok := p.Info.Defs[n].(*types.Var); ok {
								if _, isMap := v.Type().Underlying().(*types.Map); isMap {
									p.tableCands = append(p.tableCands, n)
									continue
								}
							}
							p.Globals = append(p.Globals, n.Name)
						}
					}
				}
			}
		}
	}
	for _, n := range p.tableCands {
		v := p.Info.Defs[n].(*types.Var)
		if t := p.constTableOfVar(v); t == nil || t.why != "" {
			p.Globals = append(p.Globals, n.Name)
		}
	}
	return p, nil
}

func (p *Program) funcKeys() []string {
	var ks []string
	for k := range p.Funcs {
		ks = append(ks, k)
	}
	sort.Strings(ks)
	return ks
}

// ---- instantiations ---------------------------------------------------------

var basicNumeric = []types.BasicKind{
	types.Int8, types.Int16, types.Int32, types.Int64, types.Int,
	types.Uint8, types.Uint16, types.Uint32, types.Uint64, types.Uint, types.Uintptr,
	types.Float32, types.Float64,
}

type Inst struct {
	Name string // "int8,float64"
	Map  map[*types.TypeParam]types.Type
	Args []types.Type
}

func (p *Program) candidateTypes(named bool) []types.Type {
	var ts []types.Type
	for _, k := range basicNumeric {
		ts = append(ts, types.Typ[k])
	}
	if named {
		for _, k := range basicNumeric {
			b := types.Typ[k]
			tn := types.NewTypeName(token.NoPos, p.Pkg.Types, "Named_"+b.Name(), nil)
			ts = append(ts, types.NewNamed(tn, b, nil))
		}
	}
	return ts
}

// instantiations enumerates every assignment of admissible element types to
// the function's type parameters.
func (p *Program) instantiations(fi *FuncInfo, named bool) []*Inst {
	if len(fi.TParam) == 0 {
		return []*Inst{{Name: "", Map: map[*types.TypeParam]types.Type{}}}
	}
	cands := p.candidateTypes(named)
	var out []*Inst
	var rec func(i int, cur []types.Type)
	rec = func(i int, cur []types.Type) {
		if i == len(fi.TParam) {
			in := &Inst{Map: map[*types.TypeParam]types.Type{}}
			var ns []string
			for j, tp := range fi.TParam {
				in.Map[tp] = cur[j]
				in.Args = append(in.Args, cur[j])
				ns = append(ns, typeName(cur[j]))
			}
			in.Name = strings.Join(ns, ",")
			out = append(out, in)
			return
		}
		tp := fi.TParam[i]
		iface, _ := tp.Constraint().Underlying().(*types.Interface)
		for _, c := range cands {
			if iface == nil || types.Satisfies(c, iface) {
				rec(i+1, append(append([]types.Type{}, cur...), c))
			}
		}
	}
	rec(0, nil)
	return out
}

func typeName(t types.Type) string {
	switch t := t.(type) {
	case *types.Basic:
		return t.Name()
	case *types.Named:
		return t.Obj().Name()
	}
	return t.String()
}
