package main

import (
	"bytes"
	"context"
	"crypto/sha256"
	"encoding/hex"
	"fmt"
	"os"
	"os/exec"
	"path/filepath"
	"regexp"
	"strings"
	"sync"
	"time"
)

type SolveResult struct {
	Status  string // unsat | sat | unknown | timeout | error
	Backend string
	TimeS   float64
	Model   map[string]string
	Raw     string
	Cross   string // thorough tier: disagreement description, "" if none
}

type backend struct {
	name string
	argv func(file string, timeoutS int) []string
}

var backends = []backend{
	{"z3-new-5.1.0", func(f string, t int) []string { return []string{"z3-new", fmt.Sprintf("-T:%d", t), f} }},
	{"z3-4.8.12", func(f string, t int) []string { return []string{"z3", fmt.Sprintf("-T:%d", t), f} }},
	{"cvc5-1.0.3", func(f string, t int) []string {
		return []string{"cvc5", "--incremental", fmt.Sprintf("--tlimit=%d", t*1000), f}
	}},
}

var (
	workDir   string
	solveSem  = make(chan struct{}, 16)
	cacheMu   sync.Mutex
	solveMemo = map[string]*SolveResult{}
	inflight  = map[string]chan struct{}{}
)

func initWork() {
	d, err := os.MkdirTemp("/verif/work", "run-")
	if err != nil {
		os.MkdirAll("/verif/work", 0o755)
		d, err = os.MkdirTemp("/verif/work", "run-")
		if err != nil {
			panic(err)
		}
	}
	workDir = d
}

func cleanupWork() {
	if workDir != "" {
		os.RemoveAll(workDir)
	}
}

func hashText(s string) string {
	h := sha256.Sum256([]byte(s))
	return hex.EncodeToString(h[:8])
}

func runBackend(ctx context.Context, b backend, file string, timeoutS int) *SolveResult {
	argv := b.argv(file, timeoutS)
	cctx, cancel := context.WithTimeout(ctx, time.Duration(timeoutS+2)*time.Second)
	defer cancel()
	cmd := exec.CommandContext(cctx, argv[0], argv[1:]...)
	var out bytes.Buffer
	cmd.Stdout = &out
	cmd.Stderr = &out
	t0 := time.Now()
	cmd.Run()
	dt := time.Since(t0).Seconds()
	raw := out.String()
	first := strings.TrimSpace(strings.SplitN(strings.TrimSpace(raw), "\n", 2)[0])
	res := &SolveResult{Backend: b.name, TimeS: dt, Raw: raw}
	switch {
	case first == "unsat":
		res.Status = "unsat"
	case first == "sat":
		res.Status = "sat"
		res.Model = parseModel(raw)
	case first == "unknown":
		res.Status = "unknown"
	case first == "timeout" || strings.Contains(raw, "timeout") || cctx.Err() != nil || strings.Contains(raw, "interrupted"):
		res.Status = "timeout"
	default:
		res.Status = "error"
	}
	return res
}

// solve runs the query: first z3-new alone for a short slice, then the whole
// portfolio for the remaining budget. cross=true runs all back ends to the
// budget and reports sat/unsat disagreements.
func solve(text string, budgetS int, cross bool) *SolveResult {
	return solveCtx(context.Background(), text, budgetS, cross)
}

// solveCtx: like solve, cancellable; a cancelled query is not memoised.
func solveCtx(pctx context.Context, text string, budgetS int, cross bool) *SolveResult {
	key := hashText(text)
	cacheMu.Lock()
	if r, ok := solveMemo[key]; ok {
		cacheMu.Unlock()
		return r
	}
	if w, ok := inflight[key]; ok {
		cacheMu.Unlock()
		<-w
		cacheMu.Lock()
		r, ok := solveMemo[key]
		cacheMu.Unlock()
		if ok {
			return r
		}
		return solveCtx(pctx, text, budgetS, cross)
	}
	done := make(chan struct{})
	inflight[key] = done
	cacheMu.Unlock()
	defer func() {
		cacheMu.Lock()
		delete(inflight, key)
		cacheMu.Unlock()
		close(done)
	}()
	file := filepath.Join(workDir, key+".smt2")
	os.WriteFile(file, []byte(text), 0o644)
	select {
	case solveSem <- struct{}{}:
	case <-pctx.Done():
		return &SolveResult{Status: "cancelled", Backend: "none"}
	}
	defer func() { <-solveSem }()
	if pctx.Err() != nil {
		return &SolveResult{Status: "cancelled", Backend: "none"}
	}

	var res *SolveResult
	total := 0.0
	if !cross {
		first := 3
		if budgetS < first {
			first = budgetS
		}
		r := runBackend(pctx, backends[0], file, first)
		total += r.TimeS
		if r.Status == "unsat" || r.Status == "sat" {
			res = r
		}
	}
	if res == nil {
		ctx, cancel := context.WithCancel(pctx)
		ch := make(chan *SolveResult, len(backends))
		for _, b := range backends {
			go func(b backend) { ch <- runBackend(ctx, b, file, budgetS) }(b)
		}
		var all []*SolveResult
		var grace <-chan time.Time
	collect:
		for len(all) < len(backends) {
			select {
			case r := <-ch:
				all = append(all, r)
				if r.Status == "unsat" || r.Status == "sat" {
					if !cross {
						res = r
						break collect
					}
					if grace == nil {
						// cross-checking: the other back ends get three times the winner's time (at least 10 s)
						g := 3 * r.TimeS
						if g < 10 {
							g = 10
						}
						grace = time.After(time.Duration(g * float64(time.Second)))
					}
				}
			case <-grace:
				break collect
			}
		}
		cancel()
		if cross {
			var definite *SolveResult
			for _, r := range all {
				if r.Status == "unsat" || r.Status == "sat" {
					if definite == nil {
						definite = r
					} else if definite.Status != r.Status {
						definite.Cross = fmt.Sprintf("DISAGREEMENT %s=%s %s=%s", definite.Backend, definite.Status, r.Backend, r.Status)
					} else if r.TimeS < definite.TimeS {
						r.Cross = definite.Cross
						definite = r
					}
				}
			}
			res = definite
		}
		if res == nil {
			// no definite answer: summarise
			st := "unknown"
			var raws []string
			allTO := true
			for _, r := range all {
				if r.Status != "timeout" {
					allTO = false
				}
				raws = append(raws, r.Backend+": "+r.Status+" "+firstLine(r.Raw))
				if r.TimeS > total {
					total = r.TimeS
				}
			}
			if allTO {
				st = "timeout"
			}
			res = &SolveResult{Status: st, Backend: "portfolio", TimeS: total, Raw: strings.Join(raws, "\n")}
		}
	}
	if pctx.Err() != nil && res.Status != "unsat" && res.Status != "sat" {
		res.Status = "cancelled"
		return res
	}
	cacheMu.Lock()
	solveMemo[key] = res
	cacheMu.Unlock()
	return res
}

func firstLine(s string) string {
	s = strings.TrimSpace(s)
	if i := strings.IndexByte(s, '\n'); i >= 0 {
		return s[:i]
	}
	return s
}

var reDefFun = regexp.MustCompile(`\(define-fun\s+(\S+)\s+\(\)\s+`)

// parseModel extracts nullary define-funs from a (get-model) answer.
func parseModel(raw string) map[string]string {
	m := map[string]string{}
	idxs := reDefFun.FindAllStringSubmatchIndex(raw, -1)
	for _, ix := range idxs {
		name := raw[ix[2]:ix[3]]
		rest := raw[ix[1]:]
		// skip sort sexp
		p := skipSexp(rest, 0)
		q := skipSexp(rest, p)
		if p < 0 || q < 0 {
			continue
		}
		m[name] = strings.Join(strings.Fields(rest[p:q]), " ")
	}
	return m
}

// skipSexp returns the index just after the s-expression starting at or after i.
func skipSexp(s string, i int) int {
	for i < len(s) && (s[i] == ' ' || s[i] == '\n' || s[i] == '\t') {
		i++
	}
	if i >= len(s) {
		return -1
	}
	if s[i] != '(' {
		j := i
		for j < len(s) && s[j] != ' ' && s[j] != '\n' && s[j] != ')' && s[j] != '\t' {
			j++
		}
		return j
	}
	depth := 0
	for j := i; j < len(s); j++ {
		switch s[j] {
		case '(':
			depth++
		case ')':
			depth--
			if depth == 0 {
				return j + 1
			}
		}
	}
	return -1
}
