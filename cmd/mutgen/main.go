// mutgen enumerates and applies single-point source mutations (go/ast based) to one Go file.
//
//	mutgen -file f.go -list            prints "<id>\t<function key>\t<line>\t<description>"
//	mutgen -file f.go -id k -o out.go  writes the k-th mutant
//
// Used by scripts/mutation.sh to measure which compiling, suite-passing mutants the checks notice.
package main

import (
	"flag"
	"fmt"
	"go/ast"
	"go/parser"
	"go/printer"
	"go/token"
	"os"
	"strconv"
)

type mutation struct {
	fn    string
	line  int
	desc  string
	apply func()
}

var swaps = map[token.Token][]token.Token{
	token.LSS: {token.LEQ}, token.LEQ: {token.LSS}, token.GTR: {token.GEQ}, token.GEQ: {token.GTR},
	token.EQL: {token.NEQ}, token.NEQ: {token.EQL}, token.ADD: {token.SUB}, token.SUB: {token.ADD},
	token.MUL: {token.QUO}, token.QUO: {token.MUL}, token.LAND: {token.LOR}, token.LOR: {token.LAND},
	token.SHL: {token.SHR}, token.SHR: {token.SHL},
}

func recvName(fd *ast.FuncDecl) string {
	if fd.Recv == nil || len(fd.Recv.List) == 0 {
		return fd.Name.Name
	}
	t := fd.Recv.List[0].Type
	for {
		switch x := t.(type) {
		case *ast.StarExpr:
			t = x.X
			continue
		case *ast.IndexExpr:
			t = x.X
			continue
		case *ast.IndexListExpr:
			t = x.X
			continue
		case *ast.ParenExpr:
			t = x.X
			continue
		}
		break
	}
	if id, ok := t.(*ast.Ident); ok {
		return id.Name + "." + fd.Name.Name
	}
	return fd.Name.Name
}

func main() {
	file := flag.String("file", "", "Go source file")
	list := flag.Bool("list", false, "list mutations")
	id := flag.Int("id", -1, "mutation to apply")
	out := flag.String("o", "", "output file")
	flag.Parse()
	fset := token.NewFileSet()
	f, err := parser.ParseFile(fset, *file, nil, parser.ParseComments)
	if err != nil {
		fmt.Fprintln(os.Stderr, err)
		os.Exit(2)
	}
	var muts []mutation
	for _, d := range f.Decls {
		fd, ok := d.(*ast.FuncDecl)
		if !ok || fd.Body == nil {
			continue
		}
		key := recvName(fd)
		add := func(pos token.Pos, desc string, apply func()) {
			muts = append(muts, mutation{fn: key, line: fset.Position(pos).Line, desc: desc, apply: apply})
		}
		var walkBlock func(list *[]ast.Stmt)
		ast.Inspect(fd.Body, func(n ast.Node) bool {
			switch x := n.(type) {
			case *ast.BinaryExpr:
				for _, to := range swaps[x.Op] {
					x, from, to := x, x.Op, to
					add(x.OpPos, fmt.Sprintf("%s -> %s", from, to), func() { x.Op = to })
				}
			case *ast.BasicLit:
				if x.Kind == token.INT {
					if v, err := strconv.ParseInt(x.Value, 0, 64); err == nil {
								nv := v + 1
						if v == 1 {
							nv = 0
						}
						add(x.Pos(), fmt.Sprintf("literal %d -> %d", v, nv), func() { x.Value = fmt.Sprint(nv) })
					}
				}
			case *ast.IfStmt:
				add(x.Cond.Pos(), "negate if condition", func() { x.Cond = &ast.UnaryExpr{Op: token.NOT, X: &ast.ParenExpr{X: x.Cond}} })
			case *ast.UnaryExpr:
				if x.Op == token.SUB {
						add(x.Pos(), "drop unary minus", func() { x.Op = token.ADD })
				}
			case *ast.CaseClause:
				if len(x.List) == 1 {
					if _, isB := x.List[0].(*ast.BinaryExpr); isB {
								add(x.List[0].Pos(), "negate case condition", func() { x.List[0] = &ast.UnaryExpr{Op: token.NOT, X: &ast.ParenExpr{X: x.List[0]}} })
					}
				}
			}
			return true
		})
		// statement deletion
		walkBlock = func(list *[]ast.Stmt) {
			for i, s := range *list {
				i, s := i, s
				switch x := s.(type) {
				case *ast.ExprStmt:
					add(s.Pos(), "delete call statement", func() { (*list)[i] = &ast.EmptyStmt{Semicolon: s.Pos(), Implicit: true} })
				case *ast.AssignStmt:
					if x.Tok != token.DEFINE {
						add(s.Pos(), "delete assignment", func() { (*list)[i] = &ast.EmptyStmt{Semicolon: s.Pos(), Implicit: true} })
					}
				case *ast.BlockStmt:
					walkBlock(&x.List)
				case *ast.IfStmt:
					walkBlock(&x.Body.List)
					if eb, ok := x.Else.(*ast.BlockStmt); ok {
						walkBlock(&eb.List)
					}
				case *ast.ForStmt:
					walkBlock(&x.Body.List)
				case *ast.RangeStmt:
					walkBlock(&x.Body.List)
				case *ast.SwitchStmt:
					for _, c := range x.Body.List {
						walkBlock(&c.(*ast.CaseClause).Body)
					}
				}
			}
		}
		walkBlock(&fd.Body.List)
	}
	// second pass (ids after all first-pass mutations, so those stay stable): realistic slips —
	// Len<->Cap, Length<->Capacity, len<->cap, swapped call arguments, src<->dst receivers,
	// integer results replaced by 0
	for _, d := range f.Decls {
		fd, ok := d.(*ast.FuncDecl)
		if !ok || fd.Body == nil {
			continue
		}
		key := recvName(fd)
		add := func(pos token.Pos, desc string, apply func()) {
			muts = append(muts, mutation{fn: key, line: fset.Position(pos).Line, desc: desc, apply: apply})
		}
		nameSwap := map[string]string{"Len": "Cap", "Cap": "Len", "Length": "Capacity", "Capacity": "Length", "len": "cap", "cap": "len",
			"MaxSignedValue": "MaxUnsignedValue", "src": "dst", "dst": "src"}
		ast.Inspect(fd.Body, func(n ast.Node) bool {
			switch x := n.(type) {
			case *ast.CallExpr:
				switch fn := x.Fun.(type) {
				case *ast.SelectorExpr:
					if to, ok := nameSwap[fn.Sel.Name]; ok {
						id, from := fn.Sel, fn.Sel.Name
						add(id.Pos(), fmt.Sprintf("method %s -> %s", from, to), func() { id.Name = to })
					}
					if r, ok := fn.X.(*ast.Ident); ok {
						if to, ok := nameSwap[r.Name]; ok && (r.Name == "src" || r.Name == "dst") {
							from := r.Name
							add(r.Pos(), fmt.Sprintf("receiver %s -> %s in %s.%s()", from, to, from, fn.Sel.Name), func() { r.Name = to })
						}
					}
				case *ast.Ident:
					if to, ok := nameSwap[fn.Name]; ok && (fn.Name == "len" || fn.Name == "cap") {
						from := fn.Name
						add(fn.Pos(), fmt.Sprintf("builtin %s -> %s", from, to), func() { fn.Name = to })
					}
				}
				if len(x.Args) == 2 {
					if _, isLit := x.Args[1].(*ast.BasicLit); !isLit {
						add(x.Lparen, "swap the two call arguments", func() { x.Args[0], x.Args[1] = x.Args[1], x.Args[0] })
					}
				}
			case *ast.ReturnStmt:
				if len(x.Results) == 1 {
					if _, isLit := x.Results[0].(*ast.BasicLit); !isLit {
						add(x.Pos(), "return 0 instead of the result", func() { x.Results[0] = &ast.BasicLit{Kind: token.INT, Value: "0"} })
					}
				}
			case *ast.SliceExpr:
				if x.High != nil && x.Low != nil {
					add(x.Lbrack, "swap slice bounds", func() { x.Low, x.High = x.High, x.Low })
				}
			}
			return true
		})
	}
	if *list {
		for i, m := range muts {
			fmt.Printf("%d\t%s\t%d\t%s\n", i, m.fn, m.line, m.desc)
		}
		return
	}
	if *id < 0 || *id >= len(muts) {
		fmt.Fprintln(os.Stderr, "no such mutation")
		os.Exit(2)
	}
	muts[*id].apply()
	w, err := os.Create(*out)
	if err != nil {
		fmt.Fprintln(os.Stderr, err)
		os.Exit(2)
	}
	defer w.Close()
	if err := printer.Fprint(w, fset, f); err != nil {
		fmt.Fprintln(os.Stderr, err)
		os.Exit(2)
	}
}
